#!/bin/sh
# tools/tierall.sh [quick|thorough] [property ...]
# Runs the given tier of every (or the named) property against /repo with a private verif
# root (harness taken from the current directory's tree, evidence and replays go to a
# scratch directory), prints verdict and wall time.  For background use: vp run -- tools/tierall.sh thorough
export GOFLAGS=-mod=mod GOPROXY=off GOSUMDB=off GOTOOLCHAIN=local
tier=${1:-thorough}; [ $# -gt 0 ] && shift
V=$(pwd); [ -f "$V/harness/checks.json" ] || V=/verif
if [ ! -x "$V/bin/gosymx" ] || [ "$V" != /verif ]; then (cd "$V/engine" && go build -o "$V/bin/gosymx" .) || exit 2; fi
W=/var/tmp/tierall.$$; mkdir -p "$W/evidence"; ln -s "$V/harness" "$W/harness"; cp "$V/known_findings.json" "$W/"
props="$*"; [ -n "$props" ] || props="C01 C02 C03 C04 C05 C06 C07 C08 C09 C10 C11 C12 C13 C14 C15 C16 C17 C18 C19"
for p in $props; do
  s=$(date +%s)
  out=$("$V/bin/gosymx" check --repo /repo --verif "$W" --tier "$tier" "$p" 2>&1); rc=$?
  e=$(date +%s)
  echo "== $p tier=$tier rc=$rc $((e-s))s"
  echo "$out" | grep -E "^(VIOLATION|INCONCLUSIVE|NOTE)" | cut -c1-300 | head -6
done
rm -rf "$W"
