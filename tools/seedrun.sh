#!/bin/sh
# tools/seedrun.sh <seeded-id> [property ...]
# Applies /verif/seeded/<id>/patch.diff to /repo, runs the quick check of each given
# property (default: the property named in meta.json), prints the verdicts, and always
# restores /repo afterwards.  Never commits anything.
id="$1"; shift
dir=/verif/seeded/$id
[ -f "$dir/patch.diff" ] || { echo "no $dir/patch.diff"; exit 2; }
props="$*"
[ -n "$props" ] || props=$(python3 -c "import json;print(' '.join(json.load(open('$dir/meta.json'))['checks']))")
git -C /repo diff --quiet || { echo "/repo has uncommitted changes"; exit 2; }
git -C /repo apply "$dir/patch.diff" || { echo "patch does not apply"; exit 2; }
trap 'git -C /repo checkout -- . ' EXIT INT TERM
( cd /repo && GOFLAGS=-mod=mod GOPROXY=off go build ./... ) || { echo "BUILD FAILED with seeded change"; exit 2; }
for p in $props; do
  out=$(cd /verif && ./check $p 2>&1); rc=$?
  echo "== $id vs $p: exit $rc"
  echo "$out" | grep -E "VIOLATION|INCONCLUSIVE|KNOWN-FINDING|^OK" | cut -c1-220 | head -8
done
