#!/bin/sh
# tools/replaybuilds.sh: for every harness group of checks.json, build and run the native
# replay of its first harness with an empty assignment (all nondets zero) and report
# groups whose replay overlay does not compile - a counterexample found there could not
# be confirmed (it would be reported as ENGINE-MISMATCH, i.e. inconclusive).
cd /verif || exit 2
python3 - <<'PY'
import json,subprocess,os,sys,tempfile
c=json.load(open('harness/checks.json'))
seen=set(); bad=0
for pid,spec in sorted(c.items()):
    for g in spec['groups']:
        key=(tuple(g['sets']),g.get('redirects'),g['pkg'])
        if key in seen: continue
        seen.add(key)
        params=dict(g.get('quick') or {})
        params.update((g.get('per_name') or {}).get(g['names'][0],{}))
        rf={"property":pid,"harness":g['names'][0],"package":g['pkg'],"sets":g['sets'],"redirects":g.get('redirects',''),"params":params,
            "assignment":{},"rewrite_pkgs":g.get('rewrite_pkgs',[]),"native_env":g.get('native_env',False),"expect":{"kind":"assert","id":"__none__","msg":""}}
        fd,p=tempfile.mkstemp(suffix='.json',dir='/var/tmp'); os.write(fd,json.dumps(rf).encode()); os.close(fd)
        try:
            out=subprocess.run(['./bin/gosymx','replay',p],capture_output=True,text=True,timeout=900).stdout
        except subprocess.TimeoutExpired:
            out='TIMEOUT'
        os.unlink(p)
        st='ok'
        if 'build failed' in out or 'cannot' in out.lower() and 'overlay' in out.lower(): st='BUILD FAILED'; bad+=1
        elif 'ZZ-DONE' not in out and 'ZZ-ASSERT-FAIL' not in out and 'panic' not in out: st='did not run to the end'
        print('%-4s %-28s %-45s %s'%(pid,'+'.join(g['sets']),g['names'][0],st))
        if st!='ok':
            print('    '+' | '.join(out.strip().split('\n')[-6:])[:600])
sys.exit(1 if bad else 0)
PY
