#!/usr/bin/env python3
"""Regenerates /verif/MANIFEST.json from harness/checks.json and tools/levels.json."""
import json, os
root = os.path.dirname(os.path.dirname(os.path.abspath(__file__)))
specs = json.load(open(os.path.join(root, 'harness', 'checks.json')))
levels = json.load(open(os.path.join(root, 'tools', 'levels.json')))
props = [json.loads(l)['id'] for l in open(os.path.join(root, 'properties.jsonl'))]
checks = []
na = []
for p in props:
    lv = levels.get(p, {})
    if p in specs and lv.get('claim', True):
        s = specs[p]
        checks.append({
            "property_id": p,
            "quick_cmd": "./check %s --tier quick" % p,
            "thorough_cmd": "./check %s --tier thorough" % p,
            "evidence_file": "/verif/evidence/%s.json" % p,
            "replay_cmd_template": "./check replay {path}",
            "engine": "gosymx",
            "level_claimed": {"category": "other",
                              "text": lv.get('text', 'bounded symbolic execution of the real Go code (go/ssa) with z3 deciding every assertion within the stated bounds: ' + s.get('bounds', '')),
                              "design_ref": lv.get('design_ref', 'DESIGN.md section 4 (' + p + ')')},
            "level_note": lv.get('note', 'Trusted: the gosymx interpreter (validated by its selftest corpus and by native replay of every counterexample), z3, the environment stubs listed in the evidence file. Bounds: ' + s.get('bounds', '') + '; thorough: ' + s.get('bounds_thorough', s.get('bounds', ''))),
            "technique": "bounded symbolic execution of go/ssa + SMT (z3; thorough tier cross-checked with z3 5.1 and cvc5), counterexamples replayed natively",
        })
    else:
        na.append({"property_id": p, "reason": lv.get('na_reason', 'check not built yet (work in progress; see DESIGN.md section 11)')})
m = {
    "version": 1,
    "setup_cmd": "cd /verif/engine && GOFLAGS=-mod=mod GOPROXY=off GOSUMDB=off GOTOOLCHAIN=local go build -o /verif/bin/gosymx . && cd /verif && ./bin/gosymx selftest",
    "hooks": {"guard": "verif", "enable": "no hooks are committed to /repo: harnesses and environment stubs are injected through go/packages and `go test -overlay` overlays (files /repo/<pkg>/zz_verif_*.go exist only virtually)",
              "baseline_off_cmd": "cd /repo && GOFLAGS=-mod=mod GOPROXY=off go test -vet=off -count=1 ./util/...", "source_commits": [], "add_only": True},
    "engines": [{"name": "gosymx", "path": "/verif/engine", "serves_properties": [c["property_id"] for c in checks],
                 "kind_free_text": "own symbolic interpreter for Go's SSA form (golang.org/x/tools/go/ssa v0.29.0) emitting SMT-LIB2 bit-vector queries to z3 -in; stateless DFS over decision vectors, 16 workers"}],
    "checks": checks,
    "not_applicable": na,
    "notes": "All checks are instances of one technique: solver-based bounded symbolic execution of /repo's current source. Exit 0 = held within bounds (KNOWN-FINDING lines possible), 1 = VIOLATION (replayed natively), 2 = inconclusive (unwind / unsupported / solver error / vacuous / replay mismatch), never reported as success.",
}
json.dump(m, open(os.path.join(root, 'MANIFEST.json'), 'w'), indent=1)
print("claimed:", [c["property_id"] for c in checks])
print("not applicable:", [x["property_id"] for x in na])
