#!/bin/sh
# tools/seedall.sh: run every seeded change against the checks named in its meta.json
# and print one line per (seed, check): CAUGHT (exit 1 with a replayed VIOLATION),
# MISSED (exit 0) or INCONCLUSIVE (exit 2).  /repo is restored after every seed.
cd /verif
for d in seeded/S*/; do
  id=$(basename $d)
  tools/seedrun.sh $id 2>&1 | grep -E "^== " | sed -e 's/exit 1$/CAUGHT/' -e 's/exit 0$/MISSED/' -e 's/exit 2$/INCONCLUSIVE/'
done
git -C /repo status --short
