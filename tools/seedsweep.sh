#!/bin/sh
# tools/seedsweep.sh [seed-id-prefix ...]
# Like seedall.sh, but works on a private copy of the repository (never touches /repo),
# so it can run in the background (vp run --with-repo -- tools/seedsweep.sh) while /repo
# and /verif are being used.  Copy = $VP_RUN_REPO if set, else a scratch worktree.
# Prints one line per (seed, check): CAUGHT / MISSED / INCONCLUSIVE.
export GOFLAGS=-mod=mod GOPROXY=off GOSUMDB=off GOTOOLCHAIN=local
V=$(pwd)
[ -f "$V/harness/checks.json" ] || V=/verif
if [ -n "$VP_RUN_REPO" ]; then R="$VP_RUN_REPO"; own=0; else R=/var/tmp/seedsweep.$$; git -C /repo worktree add -q --detach "$R" HEAD || exit 2; own=1; fi
if [ ! -x "$V/bin/gosymx" ]; then (cd "$V/engine" && go build -o "$V/bin/gosymx" .) || exit 2; fi
pat="$*"
# evidence and replays of these runs must not overwrite /verif's: private verif root
W=/var/tmp/seedsweep.verif.$$; mkdir -p "$W/evidence"; ln -s "$V/harness" "$W/harness"; cp "$V/known_findings.json" "$W/"
for d in "$V"/seeded/S*/; do
  id=$(basename "$d")
  if [ -n "$pat" ]; then m=0; for p in $pat; do case "$id" in $p*) m=1;; esac; done; [ $m = 1 ] || continue; fi
  git -C "$R" checkout -q -- . ; git -C "$R" clean -fdq
  git -C "$R" apply "$d/patch.diff" || { echo "== $id: PATCH DOES NOT APPLY"; continue; }
  for p in $(python3 -c "import json;print(' '.join(json.load(open('$d/meta.json'))['checks']))"); do
    out=$("$V/bin/gosymx" check --repo "$R" --verif "$W" "$p" 2>&1); rc=$?
    case $rc in 1) v=CAUGHT;; 0) v=MISSED;; *) v=INCONCLUSIVE;; esac
    echo "== $id vs $p: $v $(echo "$out" | grep -E '^VIOLATION' | head -1 | sed 's/.*replay=.*\///' | cut -c1-110)"
  done
done
git -C "$R" checkout -q -- . ; git -C "$R" clean -fdq
[ $own = 1 ] && git -C /repo worktree remove --force "$R"
rm -rf "$W"
