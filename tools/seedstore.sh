#!/bin/sh
# tools/seedstore.sh <worktree> <seeded-id> <package dir of the demo, e.g. controller>
# Re-confirms a sub-agent's seeded change in its scratch worktree (build, stable tests,
# demo fails with / passes without) and copies patch + demo into /verif/seeded/<id>/.
export GOFLAGS=-mod=mod GOPROXY=off GOSUMDB=off GOTOOLCHAIN=local
wt="$1"; id="$2"; pkg="$3"
cd "$wt" || exit 2
go build ./... || { echo "BUILD FAILS"; exit 1; }
go test -vet=off -count=1 ./util/... | tail -1
echo "--- demo WITH change (must fail):"
go test -vet=off -count=1 -run '^TestZZDemo' ./$pkg/ 2>&1 | grep -E "^(--- FAIL|FAIL|ok|panic)" | head -6
files=$(git diff --name-only)
git stash push -q -- $files
echo "--- demo WITHOUT change (must pass):"
go test -vet=off -count=1 -run '^TestZZDemo' ./$pkg/ 2>&1 | grep -E "^(--- FAIL|FAIL|ok|panic)" | head -6
git stash pop -q
mkdir -p /verif/seeded/$id
git diff -- $files > /verif/seeded/$id/patch.diff
for f in $(git status --short | grep '^??' | awk '{print $2}' | grep -v zz_patch.diff); do cp "$f" /verif/seeded/$id/demo_$(echo $f | tr / _); done
ls /verif/seeded/$id
