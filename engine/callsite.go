package main

import (
	"bytes"
	"fmt"
	"go/ast"
	"go/format"
	"go/types"
	"os"
	"path/filepath"
	"strings"

	"golang.org/x/tools/go/ast/astutil"
	"golang.org/x/tools/go/packages"
)

// rewriteCallSites binds calls to external (non-module) functions that the
// symbolic run redirects — os.Rename, (*os.File).Close, json.NewEncoder, ... — to
// the same harness stubs in the native replay build: in the source files of the
// listed module packages every such call expression is rewritten to call the stub.
// The code under test is otherwise compiled unchanged.
func rewriteCallSites(repo string, pkgs []string, tbl map[string]string, harnessPkg string, ov map[string][]byte) error {
	ext := map[string]string{}
	for callee, target := range tbl {
		if strings.HasPrefix(callee, "#") {
			continue
		}
		pp := callee
		if strings.HasPrefix(callee, "(") {
			end := strings.Index(callee, ")")
			pp = strings.TrimPrefix(callee[1:end], "*")
		}
		if dot := strings.LastIndex(pp, "."); dot >= 0 {
			pp = pp[:dot]
		}
		if strings.HasPrefix(pp, modulePrefix) {
			continue
		}
		ext[callee] = target
	}
	if len(ext) == 0 {
		return nil
	}
	cfg := &packages.Config{
		Mode:    packages.NeedName | packages.NeedFiles | packages.NeedCompiledGoFiles | packages.NeedSyntax | packages.NeedTypes | packages.NeedTypesInfo | packages.NeedImports | packages.NeedDeps,
		Dir:     repo,
		Env:     append(os.Environ(), "GOFLAGS=-mod=mod", "GOPROXY=off", "GOSUMDB=off", "GOTOOLCHAIN=local"),
		Overlay: ov,
	}
	loaded, err := packages.Load(cfg, pkgs...)
	if err != nil {
		return err
	}
	seenPkg := map[string]bool{}
	for _, pkg := range loaded {
		if seenPkg[pkg.ID] {
			continue
		}
		seenPkg[pkg.ID] = true
		if len(pkg.Errors) > 0 {
			return fmt.Errorf("call-site rewrite: %s: %v", pkg.PkgPath, pkg.Errors[0])
		}
		for i, file := range pkg.Syntax {
			path := pkg.CompiledGoFiles[i]
			if strings.HasPrefix(filepath.Base(path), "zz_verif_") {
				continue // harness files call the stubs directly
			}
			changed := false
			needImport := map[string]string{}
			ast.Inspect(file, func(n ast.Node) bool {
				call, ok := n.(*ast.CallExpr)
				if !ok {
					return true
				}
				sel, ok := call.Fun.(*ast.SelectorExpr)
				if !ok {
					return true
				}
				obj, ok := pkg.TypesInfo.Uses[sel.Sel].(*types.Func)
				if !ok || obj.Pkg() == nil {
					return true
				}
				sig := obj.Type().(*types.Signature)
				name := obj.Pkg().Path() + "." + obj.Name()
				isMethod := sig.Recv() != nil
				if isMethod {
					rt := sig.Recv().Type()
					ptr := ""
					if p, ok := rt.(*types.Pointer); ok {
						rt = p.Elem()
						ptr = "*"
					}
					nt, ok := rt.(*types.Named)
					if !ok || nt.Obj().Pkg() == nil {
						return true
					}
					name = "(" + ptr + nt.Obj().Pkg().Path() + "." + nt.Obj().Name() + ")." + obj.Name()
				}
				target, ok := ext[name]
				if !ok {
					return true
				}
				tp, tn := harnessPkg, target
				if i := strings.LastIndex(target, "."); i >= 0 {
					tp, tn = target[:i], target[i+1:]
				}
				var fun ast.Expr
				if tp == pkg.PkgPath {
					fun = ast.NewIdent(tn)
				} else {
					alias := "zzredir" + sanitize(filepath.Base(tp))
					needImport[alias] = tp
					fun = &ast.SelectorExpr{X: ast.NewIdent(alias), Sel: ast.NewIdent(tn)}
				}
				if isMethod {
					call.Args = append([]ast.Expr{sel.X}, call.Args...)
				}
				call.Fun = fun
				changed = true
				return true
			})
			if !changed {
				continue
			}
			for alias, p := range needImport {
				if !astutil.AddNamedImport(pkg.Fset, file, alias, p) {
					// false = the file imports it under this name already (the module-function
					// redirect pass adds the same aliases)
					has := false
					for _, imp := range file.Imports {
						if imp.Name != nil && imp.Name.Name == alias && strings.Trim(imp.Path.Value, `"`) == p {
							has = true
						}
					}
					if !has {
						return fmt.Errorf("cannot add import %s %q to %s", alias, p, path)
					}
				}
			}
			// drop imports that are no longer used
			for _, imp := range append([]*ast.ImportSpec{}, file.Imports...) { // deletion edits file.Imports
				ipath := strings.Trim(imp.Path.Value, `"`)
				if imp.Name != nil && (imp.Name.Name == "_" || imp.Name.Name == "." || strings.HasPrefix(imp.Name.Name, "zzredir")) {
					continue
				}
				used := false
				ast.Inspect(file, func(n ast.Node) bool {
					if se, ok := n.(*ast.SelectorExpr); ok {
						if id, ok := se.X.(*ast.Ident); ok {
							if pn, ok := pkg.TypesInfo.Uses[id].(*types.PkgName); ok && pn.Imported().Path() == ipath {
								used = true
							}
						}
					}
					return !used
				})
				if !used {
					if imp.Name != nil {
						astutil.DeleteNamedImport(pkg.Fset, file, imp.Name.Name, ipath)
					} else {
						astutil.DeleteImport(pkg.Fset, file, ipath)
					}
				}
			}
			var out bytes.Buffer
			if err := format.Node(&out, pkg.Fset, file); err != nil {
				return err
			}
			ov[path] = out.Bytes()
		}
	}
	return nil
}
