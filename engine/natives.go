package main

import (
	"encoding/base64"
	"fmt"
	"go/types"
	"net/url"
	"path"
	"path/filepath"
	"reflect"
	"regexp"
	"strconv"
	"strings"

	"golang.org/x/tools/go/ssa"
)

// packages whose every function is a no-op returning zero values
var noopPkgs = []string{
	"github.com/sirupsen/logrus",
	"go.uber.org/zap",
	"github.com/prometheus/client_golang/prometheus",
	"github.com/prometheus/client_golang/prometheus/promauto",
	"log",
	"github.com/natefinch/lumberjack",
	"runtime/debug",
	"runtime/pprof",
	"github.com/openebs/sparse-tools/stats",
}

// std / third-party packages interpreted from source when reached
var interpPkgs = map[string]bool{
	"errors": true, "strings": true, "strconv": true, "bytes": true, "sort": true,
	"encoding/binary": true, "path": true, "unicode/utf8": true, "unicode": true, "math/bits": true,
	"internal/bytealg": true, "internal/stringslite": true, "internal/byteorder": true,
	"slices": true, "cmp": true, "math": true, "container/list": true,
	"github.com/docker/go-units": true, "bufio": true, "io": true,
	"internal/itoa": true,
}

func pkgPathOf(fn *ssa.Function) string {
	if fn.Pkg != nil {
		return fn.Pkg.Pkg.Path()
	}
	if fn.Signature.Recv() != nil {
		t := fn.Signature.Recv().Type()
		if pt, ok := t.(*types.Pointer); ok {
			t = pt.Elem()
		}
		if n, ok := t.(*types.Named); ok && n.Obj().Pkg() != nil {
			return n.Obj().Pkg().Path()
		}
	}
	if o := fn.Object(); o != nil && o.Pkg() != nil {
		return o.Pkg().Path()
	}
	if fn.Parent() != nil {
		return pkgPathOf(fn.Parent())
	}
	return ""
}

var reflectNatives = map[string]interface{}{
	"strings.HasPrefix": strings.HasPrefix, "strings.HasSuffix": strings.HasSuffix, "strings.Contains": strings.Contains,
	"strings.Split": strings.Split, "strings.SplitN": strings.SplitN, "strings.Replace": strings.Replace, "strings.ReplaceAll": strings.ReplaceAll,
	"strings.Trim": strings.Trim, "strings.TrimSpace": strings.TrimSpace, "strings.TrimPrefix": strings.TrimPrefix,
	"strings.TrimSuffix": strings.TrimSuffix, "strings.TrimLeft": strings.TrimLeft, "strings.TrimRight": strings.TrimRight,
	"strings.Join": strings.Join, "strings.ToLower": strings.ToLower, "strings.ToUpper": strings.ToUpper,
	"strings.Index": strings.Index, "strings.LastIndex": strings.LastIndex, "strings.Fields": strings.Fields,
	"strings.EqualFold": strings.EqualFold, "strings.Count": strings.Count, "strings.Repeat": strings.Repeat,
	"strings.Compare": strings.Compare, "strings.Title": strings.Title, "strings.IndexByte": strings.IndexByte,
	"strconv.Itoa": strconv.Itoa, "strconv.Atoi": strconv.Atoi, "strconv.ParseInt": strconv.ParseInt,
	"strconv.FormatInt": strconv.FormatInt, "strconv.ParseBool": strconv.ParseBool, "strconv.ParseUint": strconv.ParseUint,
	"strconv.Quote": strconv.Quote, "strconv.FormatBool": strconv.FormatBool, "strconv.ParseFloat": strconv.ParseFloat,
	"strconv.FormatUint": strconv.FormatUint,
	"path.Join":          path.Join, "path.Base": path.Base, "path.Dir": path.Dir, "path.Ext": path.Ext,
	"path/filepath.Join": filepath.Join, "path/filepath.Base": filepath.Base, "path/filepath.Dir": filepath.Dir,
	"path/filepath.Ext": filepath.Ext, "path/filepath.Clean": filepath.Clean,
	"internal/bytealg.IndexByteString": strings.IndexByte, "internal/bytealg.IndexString": strings.Index,
	"internal/bytealg.CountString": func(s string, c byte) int { return strings.Count(s, string(c)) },
	"net/url.Parse":                url.Parse, "net/url.QueryEscape": url.QueryEscape, "net/url.PathEscape": url.PathEscape,
}

type nativeFn func(p *Path, g *G, fr *Frame, fv *FuncV, args []Value) (Value, int)

var nativeTable map[string]nativeFn

func init() {
	nativeTable = map[string]nativeFn{
		"fmt.Errorf":   natErrorf,
		"fmt.Sprintf":  natSprintf,
		"fmt.Sprint":   natSprint,
		"fmt.Sprintln": natSprint,
		"fmt.Println":  natNoop, "fmt.Printf": natNoop, "fmt.Print": natNoop, "fmt.Fprintf": natNoop, "fmt.Fprintln": natNoop, "fmt.Fprint": natNoop,
		"(*sync.Mutex).Lock":       natLock,
		"(*sync.Mutex).Unlock":     natUnlock,
		"(*sync.Mutex).TryLock":    natTryLock,
		"(*sync.RWMutex).Lock":     natLock,
		"(*sync.RWMutex).Unlock":   natUnlock,
		"(*sync.RWMutex).RLock":    natRLock,
		"(*sync.RWMutex).RUnlock":  natRUnlock,
		"(*sync.RWMutex).TryLock":  natTryLock,
		"(*sync.RWMutex).TryRLock": natTryRLock,
		"(*sync.WaitGroup).Add":    natWgAdd,
		"(*sync.WaitGroup).Done":   natWgDone,
		"(*sync.WaitGroup).Wait":   natWgWait,
		"(*sync.Once).Do":          natOnceDo,
		"sync/atomic.AddInt64":     natAtomicAdd, "sync/atomic.AddInt32": natAtomicAdd, "sync/atomic.AddUint64": natAtomicAdd, "sync/atomic.AddUint32": natAtomicAdd,
		"sync/atomic.LoadInt64": natAtomicLoad, "sync/atomic.LoadInt32": natAtomicLoad, "sync/atomic.LoadUint64": natAtomicLoad, "sync/atomic.LoadUint32": natAtomicLoad,
		"sync/atomic.StoreInt64": natAtomicStore, "sync/atomic.StoreInt32": natAtomicStore, "sync/atomic.StoreUint64": natAtomicStore, "sync/atomic.StoreUint32": natAtomicStore,
		"sync/atomic.CompareAndSwapInt32": natAtomicCAS, "sync/atomic.CompareAndSwapInt64": natAtomicCAS, "sync/atomic.CompareAndSwapUint32": natAtomicCAS,
		"time.Sleep": natSleep,
		"time.Now":   natZero, "time.Since": natZero, "(time.Time).Sub": natZero, "(time.Time).UnixNano": natZero, "(time.Time).Unix": natZero,
		"(time.Time).Format": natConstStr("2006-01-02T15:04:05Z"), "(time.Time).String": natConstStr("time"), "(time.Time).UTC": natFirstArg,
		"(time.Duration).Seconds": natZero, "(time.Duration).String": natConstStr("0s"), "(time.Time).Add": natFirstArg, "(time.Time).After": natZero, "(time.Time).Before": natZero,
		"(time.Duration).Nanoseconds": natZero, "(time.Duration).Milliseconds": natZero,
		"(*time.Ticker).Stop": natNoop, "(*time.Timer).Stop": natZero, "(*time.Ticker).Reset": natNoop, "(*time.Timer).Reset": natZero,
		"time.NewTicker": natNewTicker, "time.NewTimer": natNewTicker, "time.After": natTimeAfter, "time.Tick": natTimeAfter,
		"reflect.DeepEqual": natDeepEqual,
		"sort.Slice":        natSortSlice, "sort.SliceStable": natSortSlice, "sort.Strings": natSortStrings,
		"regexp.MustCompile":                         natRegexpCompile,
		"(*regexp.Regexp).FindStringSubmatch":        natRegexpFind,
		"(*regexp.Regexp).MatchString":               natRegexpMatch,
		"(*encoding/base64.Encoding).DecodeString":   natB64Decode,
		"(*encoding/base64.Encoding).EncodeToString": natB64Encode,
		"(*io/fs.PathError).Error":                   natConstStr("file-system call failed"),
		"internal/abi.NoEscape":                      natFirstArg, // identity (escape-analysis hint only)
		"internal/bytealg.MakeNoZero":                natMakeNoZero,
		"os.Exit":                                    natFatal,
		"os.Setenv":                                  natNoop,
		"os.Unsetenv":                                natNoop,
		"os.Getenv":                                  natConstStr(""),
		"os.Getpid":                                  natZero,
		"runtime.Gosched":                            natSleep, "runtime.GC": natNoop, "runtime.NumGoroutine": natZero, "runtime.Stack": natZero,
		"strconv.Itoa": natItoa, "strconv.FormatInt": natFormatInt, "strconv.Atoi": natAtoi, "strconv.ParseInt": natParseInt,
		"github.com/satori/go.uuid.NewV4":         natFreshUUID,
		"(github.com/satori/go.uuid.UUID).String": natUUIDString,
		"github.com/google/uuid.New":              natFreshUUID, "github.com/google/uuid.NewString": natFreshStr,
		"(github.com/google/uuid.UUID).String": natUUIDString,
		"errors.Is":                            natErrorsIs,
	}
}

func (p *Path) nativeFor(fn *ssa.Function) (string, bool) {
	m := p.eng.meta(fn)
	return m.native, m.hasNative
}

func nativeForFn(fn *ssa.Function, name string) (string, bool) {
	if _, ok := nativeTable[name]; ok {
		return name, true
	}
	if _, ok := reflectNatives[name]; ok {
		return "reflect:" + name, true
	}
	pp := pkgPathOf(fn)
	for _, np := range noopPkgs {
		if pp == np || strings.HasPrefix(pp, np+"/") {
			if pp == "github.com/sirupsen/logrus" {
				n := fn.Name()
				if strings.HasPrefix(n, "Fatal") || n == "Exit" {
					return "fatal", true
				}
				if strings.HasPrefix(n, "Panic") {
					return "logpanic", true
				}
			}
			return "noop", true
		}
	}
	return "", false
}

func (p *Path) callNative(g *G, fr *Frame, fv *FuncV, args []Value) (Value, int) {
	name := fv.native
	switch {
	case strings.HasPrefix(name, "builtin:"):
		return p.callBuiltin(g, fr, name[8:], args, fv)
	case name == "noop":
		if fv.sig != nil {
			return p.zeroOfSig(fv.sig), stNext
		}
		return p.zeroResult(fv.fn), stNext
	case name == "fatal":
		p.end("fatal", "process exit via "+fv.fn.String()+p.where())
	case name == "logpanic":
		p.end("panic", "logrus panic via "+fv.fn.String()+p.where())
	case strings.HasPrefix(name, "reflect:"):
		return p.callReflect(name[8:], fv.fn, args), stNext
	case strings.HasPrefix(name, "nativemethod:"):
		return p.nativeMethod(name[13:], args), stNext
	}
	f, ok := nativeTable[name]
	if !ok {
		p.internal("no native " + name)
	}
	return f(p, g, fr, fv, args)
}

func (p *Path) zeroResult(fn *ssa.Function) Value { return p.zeroOfSig(fn.Signature) }

// zeroOfSig: zero results; interface results become no-op objects so that chained
// calls on loggers / metric observers stay no-ops.
func (p *Path) zeroOfSig(sig *types.Signature) Value {
	res := sig.Results()
	one := func(t types.Type) Value {
		if _, ok := t.Underlying().(*types.Interface); ok && !isErrorType(t) {
			return IfaceV{t: noopIfaceType, v: &NativeV{kind: "noop"}}
		}
		return p.zero(t)
	}
	switch res.Len() {
	case 0:
		return nil
	case 1:
		return one(res.At(0).Type())
	}
	tv := make(TupleV, res.Len())
	for i := range tv {
		tv[i] = one(res.At(i).Type())
	}
	return tv
}

func isErrorType(t types.Type) bool {
	return types.Identical(t, types.Universe.Lookup("error").Type())
}

func natNoop(p *Path, g *G, fr *Frame, fv *FuncV, args []Value) (Value, int) {
	return p.zeroResult(fv.fn), stNext
}
func natZero(p *Path, g *G, fr *Frame, fv *FuncV, args []Value) (Value, int) {
	return p.zeroResult(fv.fn), stNext
}
func natFirstArg(p *Path, g *G, fr *Frame, fv *FuncV, args []Value) (Value, int) {
	return args[0], stNext
}
func natConstStr(s string) nativeFn {
	return func(p *Path, g *G, fr *Frame, fv *FuncV, args []Value) (Value, int) { return conc(s), stNext }
}
func natFatal(p *Path, g *G, fr *Frame, fv *FuncV, args []Value) (Value, int) {
	p.end("fatal", "process exit via "+fv.fn.String()+p.where())
	return nil, stNext
}

// ---------- errors ----------

func (p *Path) errorStringType() types.Type {
	pkg := p.eng.prog.ImportedPackage("errors")
	if pkg == nil {
		p.internal("package errors not loaded")
	}
	return types.NewPointer(pkg.Type("errorString").Type())
}

func (p *Path) newError(msg StrV) Value {
	t := p.errorStringType()
	o := p.newObj(t.(*types.Pointer).Elem(), StructV{[]Value{msg}}, "error")
	return IfaceV{t: t, v: &Ptr{obj: o}}
}

// nativeGlobal provides values for a few std globals without running std inits.
func (p *Path) nativeGlobal(g *ssa.Global) (Value, bool) {
	if g.Pkg == nil {
		return nil, false
	}
	name := g.Pkg.Pkg.Path() + "." + g.Name()
	if v, ok := p.eng.sharedGlobals[name]; ok {
		// error identity must be stable within the path: memoize per path
		if e, ok := p.nativeState["g:"+name]; ok {
			return e.(Value), true
		}
		ev := p.newError(conc(v))
		p.nativeState["g:"+name] = ev
		return ev, true
	}
	return nil, false
}

var stdErrorGlobals = map[string]string{
	"io.EOF": "EOF", "io.ErrUnexpectedEOF": "unexpected EOF", "io.ErrShortWrite": "short write", "io.ErrClosedPipe": "io: read/write on closed pipe",
	"io.ErrShortBuffer": "short buffer", "io.ErrNoProgress": "multiple Read calls return no data or error",
	"os.ErrNotExist": "file does not exist", "os.ErrExist": "file already exists", "os.ErrClosed": "file already closed",
	"os.ErrInvalid": "invalid argument", "os.ErrPermission": "permission denied",
	"io/fs.ErrNotExist": "file does not exist", "io/fs.ErrExist": "file already exists",
	"net/http.ErrServerClosed": "http: Server closed",
	"bufio.ErrNegativeCount":   "bufio: negative count", "bufio.ErrBufferFull": "bufio: buffer full",
	"bufio.ErrInvalidUnreadByte": "bufio: invalid use of UnreadByte", "bufio.ErrInvalidUnreadRune": "bufio: invalid use of UnreadRune",
	"bufio.errNegativeRead": "bufio: reader returned negative count from Read", "bufio.errNegativeWrite": "bufio: writer returned negative count from Write",
	"io.errInvalidWrite": "invalid write result", "io.errWhence": "Seek: invalid whence", "io.errOffset": "Seek: invalid offset",
	"strconv.ErrRange": "value out of range", "strconv.ErrSyntax": "invalid syntax",
	"encoding/binary.errOverflow": "binary: varint overflows a 64-bit integer", "encoding/binary.errBufferTooSmall": "buffer too small",
}

func (p *Path) formatArgs(args []Value) ([]interface{}, bool) {
	// args[0..] are interface values; returns Go values and whether all were concrete
	out := make([]interface{}, len(args))
	allConc := true
	for i, a := range args {
		v, c := p.toGoValue(a)
		out[i] = v
		if !c {
			allConc = false
		}
	}
	return out, allConc
}

// toGoValue converts a value to a printable Go value (for formatting only).
func (p *Path) toGoValue(a Value) (interface{}, bool) {
	switch x := a.(type) {
	case IfaceV:
		if x.t == nil {
			return nil, true
		}
		if _, signed, ok := intWidth(x.t); ok {
			if t, isT := x.v.(*Term); isT {
				if t.IsConst() {
					if signed {
						return t.SVal(), true
					}
					return t.val, true
				}
				return symPlaceholder{t}, false
			}
		}
		// error or Stringer values: use message
		if ptr, ok := x.v.(*Ptr); ok && ptr != nil && types.Identical(x.t, p.errorStringType()) {
			s := p.load(ptr).(StructV).f[0].(StrV)
			if s.kind == strConc {
				return fmt.Errorf("%s", s.s), true
			}
			return fmt.Errorf("%s", p.concStrNoFork(s)), false
		}
		return p.toGoValue(x.v)
	case *Term:
		if x.IsConst() {
			if x.sort == 0 {
				return x.val == 1, true
			}
			return x.SVal(), true
		}
		return symPlaceholder{x}, false
	case StrV:
		if x.kind == strConc {
			return x.s, true
		}
		if x.kind == strEnum {
			// formatting an enum string: fork over its values so the result stays concrete
			return p.concStr(x, "format argument"), true
		}
		return p.concStrNoFork(x), false
	case FloatV:
		return float64(x), true
	case *Ptr:
		if x == nil {
			return "<nil>", true
		}
		return fmt.Sprintf("0xc%06d", x.obj.id), true
	case SliceV:
		// a byte slice prints as its text (%s, %q of []byte)
		if x.base != nil && x.base.obj != nil {
			if at, ok := x.base.obj.typ.Underlying().(*types.Array); ok {
				if w, _, isInt := intWidth(at.Elem()); isInt && w == 8 {
					es := p.sliceElems(x)
					bs := make([]byte, len(es))
					allc := true
					for i, e := range es {
						if t, isT := e.(*Term); isT && t.IsConst() {
							bs[i] = byte(t.val)
						} else {
							bs[i], allc = '?', false
						}
					}
					return bs, allc
				}
			}
		}
		var parts []interface{}
		allc := true
		for _, e := range p.sliceElems(x) {
			v, c := p.toGoValue(e)
			parts = append(parts, v)
			allc = allc && c
		}
		return parts, allc
	case StructV:
		var parts []interface{}
		allc := true
		for _, e := range x.f {
			v, c := p.toGoValue(e)
			parts = append(parts, v)
			allc = allc && c
		}
		return parts, allc
	case nil:
		return nil, true
	}
	return fmt.Sprintf("<%T>", a), true
}

type symPlaceholder struct{ t *Term }

func (s symPlaceholder) String() string             { return "<sym>" }
func (s symPlaceholder) Format(f fmt.State, c rune) { f.Write([]byte("<sym>")) }

func (p *Path) sprintf(args []Value) StrV {
	format := p.concStr(args[0], "format string")
	var vs []Value
	if len(args) > 1 {
		vs = p.sliceElems(args[1].(SliceV))
	}
	// decimal-string special case: Sprintf("%d", x) / ("%v", x) with one symbolic int
	if (format == "%d" || format == "%v") && len(vs) == 1 {
		if iv, ok := vs[0].(IfaceV); ok && iv.t != nil {
			if _, signed, isInt := intWidth(iv.t); isInt {
				if t, isT := iv.v.(*Term); isT && !t.IsConst() {
					return StrV{kind: strDec, dec: p.tc.Resize(t, 64, signed)}
				}
			}
		}
	}
	gv, allc := p.formatArgs(vs)
	s := fmt.Sprintf(format, gv...)
	if allc {
		return conc(s)
	}
	p.nextObj++
	return StrV{kind: strOpaque, s: s, id: p.nextObj}
}

func natSprintf(p *Path, g *G, fr *Frame, fv *FuncV, args []Value) (Value, int) {
	return p.sprintf(args), stNext
}

func natSprint(p *Path, g *G, fr *Frame, fv *FuncV, args []Value) (Value, int) {
	vs := p.sliceElems(args[0].(SliceV))
	gv, allc := p.formatArgs(vs)
	s := fmt.Sprint(gv...)
	if allc {
		return conc(s), stNext
	}
	p.nextObj++
	return StrV{kind: strOpaque, s: s, id: p.nextObj}, stNext
}

func natErrorf(p *Path, g *G, fr *Frame, fv *FuncV, args []Value) (Value, int) {
	msg := p.sprintf(args)
	if msg.kind == strDec {
		msg = StrV{kind: strOpaque, s: "<dec>", id: p.nextObj}
	}
	return p.newError(msg), stNext
}

func natErrorsIs(p *Path, g *G, fr *Frame, fv *FuncV, args []Value) (Value, int) {
	return p.eqValue(args[0], args[1]), stNext
}

// ---------- sync ----------

func (p *Path) lockOf(v Value) *lockState {
	ptr, _ := v.(*Ptr)
	if ptr == nil {
		p.runtimePanic("nil pointer dereference (mutex)")
	}
	k := ptr.key()
	ls := p.locks[k]
	if ls == nil {
		ls = &lockState{}
		p.locks[k] = ls
	}
	return ls
}

func natLock(p *Path, g *G, fr *Frame, fv *FuncV, args []Value) (Value, int) {
	ls := p.lockOf(args[0])
	if ls.writer || ls.readers > 0 {
		if ls.pending == nil {
			ls.pending = map[int]bool{}
		}
		ls.pending[g.id] = true
		g.wait = "Lock of " + args[0].(*Ptr).String()
		return nil, stBlock
	}
	delete(ls.pending, g.id)
	ls.writer = true
	ls.holder = g.id
	return nil, stNext
}

func natTryLock(p *Path, g *G, fr *Frame, fv *FuncV, args []Value) (Value, int) {
	ls := p.lockOf(args[0])
	if ls.writer || ls.readers > 0 {
		return p.tc.Bool(false), stNext
	}
	ls.writer = true
	ls.holder = g.id
	return p.tc.Bool(true), stNext
}

func natTryRLock(p *Path, g *G, fr *Frame, fv *FuncV, args []Value) (Value, int) {
	ls := p.lockOf(args[0])
	if ls.writer || len(ls.pending) > 0 {
		return p.tc.Bool(false), stNext
	}
	ls.readers++
	return p.tc.Bool(true), stNext
}

func natUnlock(p *Path, g *G, fr *Frame, fv *FuncV, args []Value) (Value, int) {
	ls := p.lockOf(args[0])
	if !ls.writer {
		p.end("fatal", "fatal error: sync: Unlock of unlocked mutex"+p.where())
	}
	ls.writer = false
	return nil, stNext
}

func natRLock(p *Path, g *G, fr *Frame, fv *FuncV, args []Value) (Value, int) {
	ls := p.lockOf(args[0])
	if ls.writer || len(ls.pending) > 0 {
		g.wait = "RLock of " + args[0].(*Ptr).String()
		return nil, stBlock
	}
	ls.readers++
	return nil, stNext
}

func natRUnlock(p *Path, g *G, fr *Frame, fv *FuncV, args []Value) (Value, int) {
	ls := p.lockOf(args[0])
	if ls.readers == 0 {
		p.end("fatal", "fatal error: sync: RUnlock of unlocked RWMutex"+p.where())
	}
	ls.readers--
	return nil, stNext
}

func natWgAdd(p *Path, g *G, fr *Frame, fv *FuncV, args []Value) (Value, int) {
	k := args[0].(*Ptr).key()
	p.wgs[k] += int(p.concInt(args[1], "WaitGroup.Add"))
	if p.wgs[k] < 0 {
		p.runtimePanic("sync: negative WaitGroup counter")
	}
	return nil, stNext
}

func natWgDone(p *Path, g *G, fr *Frame, fv *FuncV, args []Value) (Value, int) {
	k := args[0].(*Ptr).key()
	p.wgs[k]--
	if p.wgs[k] < 0 {
		p.runtimePanic("sync: negative WaitGroup counter")
	}
	return nil, stNext
}

func natWgWait(p *Path, g *G, fr *Frame, fv *FuncV, args []Value) (Value, int) {
	k := args[0].(*Ptr).key()
	if p.wgs[k] > 0 {
		g.wait = "WaitGroup.Wait"
		return nil, stBlock
	}
	return nil, stNext
}

func natOnceDo(p *Path, g *G, fr *Frame, fv *FuncV, args []Value) (Value, int) {
	k := args[0].(*Ptr).key()
	if p.onces[k] {
		return nil, stNext
	}
	p.onces[k] = true
	f := args[1].(*FuncV)
	p.callSync(g, f, nil)
	return nil, stNext
}

func natAtomicAdd(p *Path, g *G, fr *Frame, fv *FuncV, args []Value) (Value, int) {
	ptr := args[0].(*Ptr)
	v := p.tc.Bin("bvadd", p.load(ptr).(*Term), args[1].(*Term))
	p.store(ptr, v)
	return v, stNext
}
func natAtomicLoad(p *Path, g *G, fr *Frame, fv *FuncV, args []Value) (Value, int) {
	return p.load(args[0].(*Ptr)), stNext
}
func natAtomicStore(p *Path, g *G, fr *Frame, fv *FuncV, args []Value) (Value, int) {
	p.store(args[0].(*Ptr), args[1])
	return nil, stNext
}
func natAtomicCAS(p *Path, g *G, fr *Frame, fv *FuncV, args []Value) (Value, int) {
	ptr := args[0].(*Ptr)
	cur := p.load(ptr).(*Term)
	if p.branch(p.tc.Eq(cur, args[1].(*Term))) {
		p.store(ptr, args[2])
		return p.tc.Bool(true), stNext
	}
	return p.tc.Bool(false), stNext
}

// time.Sleep yields to the other goroutines once, then continues.
func natSleep(p *Path, g *G, fr *Frame, fv *FuncV, args []Value) (Value, int) {
	if g.id == 0 && len(p.gs) > 1 {
		if g.settleDone {
			g.settleDone = false
			g.settleReq = false
			return nil, stNext
		}
		g.settleReq = true
		g.wait = "sleep"
		return nil, stBlock
	}
	if g.id != 0 {
		// a goroutine other than the harness's polls by sleeping: it gives the others a turn
		// (a poller that sleeps while nothing else can run is treated as blocked)
		if g.napDone {
			g.napDone = false
			return nil, stNext
		}
		g.napping = true
		g.wait = "sleep"
		return nil, stBlock
	}
	return nil, stNext
}

// time.NewTicker / NewTimer: an object whose channel never fires (timers are
// symbolic events a harness injects explicitly through redirects).
func natNewTicker(p *Path, g *G, fr *Frame, fv *FuncV, args []Value) (Value, int) {
	pt := fv.fn.Signature.Results().At(0).Type().(*types.Pointer)
	st := pt.Elem().Underlying().(*types.Struct)
	v := p.zero(pt.Elem()).(StructV)
	for i := 0; i < st.NumFields(); i++ {
		if st.Field(i).Name() == "C" {
			p.nextObj++
			ct := st.Field(i).Type().Underlying().(*types.Chan)
			v.f[i] = &ChanObj{id: p.nextObj, cap: 1, etyp: ct.Elem()}
		}
	}
	o := p.newObj(pt.Elem(), v, "ticker")
	return &Ptr{obj: o}, stNext
}

func natTimeAfter(p *Path, g *G, fr *Frame, fv *FuncV, args []Value) (Value, int) {
	ct := fv.fn.Signature.Results().At(0).Type().Underlying().(*types.Chan)
	p.nextObj++
	return &ChanObj{id: p.nextObj, cap: 1, etyp: ct.Elem()}, stNext
}

// ---------- reflect.DeepEqual ----------

func natDeepEqual(p *Path, g *G, fr *Frame, fv *FuncV, args []Value) (Value, int) {
	return p.deepEq(args[0], args[1], 0), stNext
}

func (p *Path) deepEq(a, b Value, depth int) *Term {
	if depth > 20 {
		p.unsupported("DeepEqual recursion too deep")
	}
	switch x := a.(type) {
	case IfaceV:
		y, ok := b.(IfaceV)
		if !ok {
			return p.tc.Bool(false)
		}
		if x.t == nil || y.t == nil {
			return p.tc.Bool(x.t == nil && y.t == nil)
		}
		if !types.Identical(x.t, y.t) {
			return p.tc.Bool(false)
		}
		return p.deepEq(x.v, y.v, depth+1)
	case SliceV:
		y, ok := b.(SliceV)
		if !ok {
			return p.tc.Bool(false)
		}
		if (x.base == nil) != (y.base == nil) {
			return p.tc.Bool(false)
		}
		if x.ln != y.ln {
			return p.tc.Bool(false)
		}
		res := p.tc.Bool(true)
		ex, ey := p.sliceElems(x), p.sliceElems(y)
		for i := range ex {
			res = p.tc.And(res, p.deepEq(ex[i], ey[i], depth+1))
		}
		return res
	case *Ptr:
		y, _ := b.(*Ptr)
		if x == nil || y == nil {
			return p.tc.Bool(x == nil && y == nil)
		}
		if x.obj == y.obj && x.key() == y.key() {
			return p.tc.Bool(true)
		}
		return p.deepEq(p.load(x), p.load(y), depth+1)
	case *MapObj:
		y, _ := b.(*MapObj)
		if x == nil || y == nil {
			return p.tc.Bool(x == nil && y == nil)
		}
		if x.n != y.n {
			return p.tc.Bool(false)
		}
		res := p.tc.Bool(true)
		for _, k := range x.liveKeys() {
			ks := p.keyOf(k)
			xv, _ := x.get(ks)
			yv, ok := y.get(ks)
			if !ok {
				return p.tc.Bool(false)
			}
			res = p.tc.And(res, p.deepEq(xv, yv, depth+1))
		}
		return res
	case StructV:
		y := b.(StructV)
		res := p.tc.Bool(true)
		for i := range x.f {
			res = p.tc.And(res, p.deepEq(x.f[i], y.f[i], depth+1))
		}
		return res
	case ArrayV:
		y := b.(ArrayV)
		res := p.tc.Bool(true)
		for i := range x.e {
			res = p.tc.And(res, p.deepEq(x.e[i], y.e[i], depth+1))
		}
		return res
	}
	return p.eqValue(a, b)
}

// ---------- sort ----------

func natSortSlice(p *Path, g *G, fr *Frame, fv *FuncV, args []Value) (Value, int) {
	iv := args[0].(IfaceV)
	s := iv.v.(SliceV)
	less := args[1].(*FuncV)
	// stable insertion sort with swaps, calling the real less(i, j)
	for i := 1; i < s.ln; i++ {
		for j := i; j > 0; j-- {
			r := p.callSync(g, less, []Value{p.tc.Const(64, uint64(j)), p.tc.Const(64, uint64(j-1))})
			if !p.branch(r.(*Term)) {
				break
			}
			a, b := p.sliceGet(s, j), p.sliceGet(s, j-1)
			p.sliceSet(s, j, b)
			p.sliceSet(s, j-1, a)
		}
	}
	return nil, stNext
}

func natSortStrings(p *Path, g *G, fr *Frame, fv *FuncV, args []Value) (Value, int) {
	s := args[0].(SliceV)
	for i := 1; i < s.ln; i++ {
		for j := i; j > 0; j-- {
			a, b := p.concStr(p.sliceGet(s, j), "sort"), p.concStr(p.sliceGet(s, j-1), "sort")
			if !(a < b) {
				break
			}
			p.sliceSet(s, j, conc(b))
			p.sliceSet(s, j-1, conc(a))
		}
	}
	return nil, stNext
}

// ---------- regexp / base64 ----------

func natRegexpCompile(p *Path, g *G, fr *Frame, fv *FuncV, args []Value) (Value, int) {
	re := regexp.MustCompile(p.concStr(args[0], "regexp"))
	p.nextObj++
	o := p.newObj(nil, &NativeV{kind: "regexp", v: re, id: p.nextObj}, "regexp")
	return &Ptr{obj: o}, stNext
}

func (p *Path) regexpOf(v Value) *regexp.Regexp {
	ptr, _ := v.(*Ptr)
	if ptr == nil {
		p.runtimePanic("nil regexp")
	}
	nv, ok := ptr.obj.v.(*NativeV)
	if !ok {
		p.unsupported("regexp object not native (package init not interpreted?)")
	}
	return nv.v.(*regexp.Regexp)
}

func natRegexpFind(p *Path, g *G, fr *Frame, fv *FuncV, args []Value) (Value, int) {
	re := p.regexpOf(args[0])
	m := re.FindStringSubmatch(p.concStr(args[1], "regexp input"))
	if m == nil {
		return SliceV{}, stNext
	}
	vs := make([]Value, len(m))
	for i, s := range m {
		vs[i] = conc(s)
	}
	return p.sliceFromValues(types.Typ[types.String], vs), stNext
}

func natRegexpMatch(p *Path, g *G, fr *Frame, fv *FuncV, args []Value) (Value, int) {
	re := p.regexpOf(args[0])
	return p.tc.Bool(re.MatchString(p.concStr(args[1], "regexp input"))), stNext
}

func natB64Decode(p *Path, g *G, fr *Frame, fv *FuncV, args []Value) (Value, int) {
	s := p.concStr(args[1], "base64 input")
	b, err := base64.StdEncoding.DecodeString(s)
	if err != nil {
		return TupleV{SliceV{}, p.newError(conc(err.Error()))}, stNext
	}
	vs := make([]Value, len(b))
	for i, c := range b {
		vs[i] = p.tc.Const(8, uint64(c))
	}
	return TupleV{p.sliceFromValues(types.Typ[types.Uint8], vs), IfaceV{}}, stNext
}

// natMakeNoZero: make([]byte, n) (the runtime's uninitialised variant; zeroed here)
func natMakeNoZero(p *Path, g *G, fr *Frame, fv *FuncV, args []Value) (Value, int) {
	n := int(p.concInt(args[0], "MakeNoZero length"))
	vs := make([]Value, n)
	for i := range vs {
		vs[i] = p.tc.Const(8, 0)
	}
	return p.sliceFromValues(types.Typ[types.Uint8], vs), stNext
}

func natB64Encode(p *Path, g *G, fr *Frame, fv *FuncV, args []Value) (Value, int) {
	es := p.sliceElems(args[1].(SliceV))
	b := make([]byte, len(es))
	for i, e := range es {
		b[i] = byte(p.concInt(e, "base64 input"))
	}
	return conc(base64.StdEncoding.EncodeToString(b)), stNext
}

// ---------- strconv with decimal strings ----------

func natItoa(p *Path, g *G, fr *Frame, fv *FuncV, args []Value) (Value, int) {
	t := args[0].(*Term)
	if t.IsConst() {
		return conc(strconv.FormatInt(t.SVal(), 10)), stNext
	}
	return StrV{kind: strDec, dec: t}, stNext
}

func natFormatInt(p *Path, g *G, fr *Frame, fv *FuncV, args []Value) (Value, int) {
	t := args[0].(*Term)
	base := p.concInt(args[1], "FormatInt base")
	if t.IsConst() {
		return conc(strconv.FormatInt(t.SVal(), int(base))), stNext
	}
	if base != 10 {
		p.unsupported("FormatInt of symbolic value with base != 10")
	}
	return StrV{kind: strDec, dec: t}, stNext
}

func (p *Path) parseIntResult(s StrV, bits int) (Value, Value) {
	if s.kind == strDec {
		if bits > 0 && bits < 64 {
			// strconv.ParseInt with a narrower bitSize: out-of-range values are clamped and
			// reported with a range error
			max := p.tc.Const(64, uint64(int64(1)<<uint(bits-1)-1))
			min := p.tc.Const(64, uint64(-(int64(1) << uint(bits-1))))
			if p.branch(p.tc.Cmp("bvsle", s.dec, max)) {
				if p.branch(p.tc.Cmp("bvsle", min, s.dec)) {
					return s.dec, IfaceV{}
				}
				return min, p.newError(conc("strconv.ParseInt: value out of range"))
			}
			return max, p.newError(conc("strconv.ParseInt: value out of range"))
		}
		return s.dec, IfaceV{}
	}
	str := p.concStr(s, "ParseInt input")
	v, err := strconv.ParseInt(str, 10, bits)
	if err != nil {
		return p.tc.Const(64, uint64(v)), p.newError(conc(err.Error()))
	}
	return p.tc.Const(64, uint64(v)), IfaceV{}
}

func natAtoi(p *Path, g *G, fr *Frame, fv *FuncV, args []Value) (Value, int) {
	v, e := p.parseIntResult(args[0].(StrV), 64)
	return TupleV{v, e}, stNext
}

func natParseInt(p *Path, g *G, fr *Frame, fv *FuncV, args []Value) (Value, int) {
	base := p.concInt(args[1], "ParseInt base")
	bits := p.concInt(args[2], "ParseInt bits")
	s := args[0].(StrV)
	if s.kind != strDec && base != 10 {
		str := p.concStr(s, "ParseInt input")
		v, err := strconv.ParseInt(str, int(base), int(bits))
		if err != nil {
			return TupleV{p.tc.Const(64, uint64(v)), p.newError(conc(err.Error()))}, stNext
		}
		return TupleV{p.tc.Const(64, uint64(v)), IfaceV{}}, stNext
	}
	if bits == 0 {
		bits = 64
	}
	v, e := p.parseIntResult(s, int(bits))
	return TupleV{v, e}, stNext
}

// ---------- uuid ----------

func natFreshUUID(p *Path, g *G, fr *Frame, fv *FuncV, args []Value) (Value, int) {
	p.nextObj++
	id := p.nextObj
	e := make([]Value, 16)
	for i := range e {
		e[i] = p.tc.Const(8, 0)
	}
	e[14] = p.tc.Const(8, uint64(id>>8))
	e[15] = p.tc.Const(8, uint64(id))
	res := fv.fn.Signature.Results()
	if res.Len() == 2 {
		return TupleV{ArrayV{e}, IfaceV{}}, stNext
	}
	return ArrayV{e}, stNext
}

func natFreshStr(p *Path, g *G, fr *Frame, fv *FuncV, args []Value) (Value, int) {
	p.nextObj++
	return conc(fmt.Sprintf("00000000-0000-4000-8000-%012d", p.nextObj)), stNext
}

func natUUIDString(p *Path, g *G, fr *Frame, fv *FuncV, args []Value) (Value, int) {
	a := args[0].(ArrayV)
	id := int(p.concInt(a.e[14], "uuid"))<<8 | int(p.concInt(a.e[15], "uuid"))
	return conc(fmt.Sprintf("00000000-0000-4000-8000-%012d", id)), stNext
}

// ---------- generic reflection-based natives for pure functions ----------

func (p *Path) callReflect(name string, fn *ssa.Function, args []Value) Value {
	f := reflect.ValueOf(reflectNatives[name])
	ft := f.Type()
	in := make([]reflect.Value, len(args))
	for i, a := range args {
		var pt reflect.Type
		if ft.IsVariadic() && i >= ft.NumIn()-1 {
			pt = ft.In(ft.NumIn() - 1)
		} else {
			pt = ft.In(i)
		}
		in[i] = p.toReflect(a, pt, name)
	}
	var out []reflect.Value
	if ft.IsVariadic() {
		out = f.CallSlice(in)
	} else {
		out = f.Call(in)
	}
	res := fn.Signature.Results()
	vals := make([]Value, len(out))
	for i, o := range out {
		vals[i] = p.fromReflect(o, res.At(i).Type())
	}
	switch len(vals) {
	case 0:
		return nil
	case 1:
		return vals[0]
	}
	return TupleV(vals)
}

func (p *Path) toReflect(a Value, t reflect.Type, what string) reflect.Value {
	switch t.Kind() {
	case reflect.String:
		return reflect.ValueOf(p.concStr(a, what)).Convert(t)
	case reflect.Int, reflect.Int64, reflect.Int32, reflect.Int16, reflect.Int8:
		return reflect.ValueOf(p.concInt(a, what)).Convert(t)
	case reflect.Uint, reflect.Uint64, reflect.Uint32, reflect.Uint16, reflect.Uint8:
		return reflect.ValueOf(uint64(p.concInt(a, what))).Convert(t)
	case reflect.Bool:
		return reflect.ValueOf(p.branch(a.(*Term)))
	case reflect.Slice:
		s := a.(SliceV)
		es := p.sliceElems(s)
		out := reflect.MakeSlice(t, len(es), len(es))
		for i, e := range es {
			out.Index(i).Set(p.toReflect(e, t.Elem(), what))
		}
		return out
	}
	p.unsupported("native argument of kind " + t.Kind().String() + " for " + what)
	return reflect.Value{}
}

func (p *Path) fromReflect(o reflect.Value, t types.Type) Value {
	switch o.Kind() {
	case reflect.String:
		return conc(o.String())
	case reflect.Int, reflect.Int64, reflect.Int32, reflect.Int16, reflect.Int8:
		w, _, _ := intWidth(t)
		return p.tc.Const(w, uint64(o.Int()))
	case reflect.Uint, reflect.Uint64, reflect.Uint32, reflect.Uint16, reflect.Uint8:
		w, _, _ := intWidth(t)
		return p.tc.Const(w, o.Uint())
	case reflect.Bool:
		return p.tc.Bool(o.Bool())
	case reflect.Float64, reflect.Float32:
		return FloatV(o.Float())
	case reflect.Slice:
		if o.IsNil() {
			return SliceV{}
		}
		et := t.Underlying().(*types.Slice).Elem()
		vs := make([]Value, o.Len())
		for i := range vs {
			vs[i] = p.fromReflect(o.Index(i), et)
		}
		return p.sliceFromValues(et, vs)
	case reflect.Interface:
		if o.IsNil() {
			return IfaceV{}
		}
		if e, ok := o.Interface().(error); ok {
			return p.newError(conc(e.Error()))
		}
	case reflect.Ptr:
		// pointer to a plain struct (e.g. *url.URL): a fresh heap object with the same
		// field values; nested pointers must be nil
		pt, ok := t.Underlying().(*types.Pointer)
		if !ok {
			break
		}
		if o.IsNil() {
			return (*Ptr)(nil)
		}
		v := p.fromReflect(o.Elem(), pt.Elem())
		return &Ptr{obj: p.newObj(pt.Elem(), v, "native")}
	case reflect.Struct:
		st, ok := t.Underlying().(*types.Struct)
		if !ok || st.NumFields() != o.NumField() {
			break
		}
		fs := make([]Value, o.NumField())
		for i := range fs {
			fv := o.Field(i)
			if fv.Kind() == reflect.Ptr && fv.IsNil() {
				fs[i] = p.zero(st.Field(i).Type())
				continue
			}
			if !fv.CanInterface() {
				// unexported field: readable through reflection for basic kinds only
				switch fv.Kind() {
				case reflect.String, reflect.Bool, reflect.Int, reflect.Int64, reflect.Int32, reflect.Uint, reflect.Uint64, reflect.Uint32:
				default:
					fs[i] = p.zero(st.Field(i).Type())
					continue
				}
			}
			fs[i] = p.fromReflect(fv, st.Field(i).Type())
		}
		return StructV{f: fs}
	}
	p.unsupported("native result of kind " + o.Kind().String())
	return nil
}

// ---------- native-typed interface values ----------

// noopIfaceType is the dynamic type of interface values returned by no-op packages
// (prometheus observers, zap loggers): every method on them is a no-op.
var noopIfaceType = types.NewNamed(types.NewTypeName(0, nil, "zznoop", nil), types.NewStruct(nil, nil), nil)

func (p *Path) isNativeType(t types.Type) bool                       { return t == noopIfaceType }
func (p *Path) nativeImplements(iv IfaceV, it *types.Interface) bool { return true }
func (p *Path) nativeMethod(name string, args []Value) Value {
	p.unsupported("native method " + name)
	return nil
}
