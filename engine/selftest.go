package main

import (
	"bytes"
	"encoding/json"
	"fmt"
	"os"
	"os/exec"
	"path/filepath"
	"regexp"
	"sort"
	"strings"
)

// cmdSelftest: translator validation.  Every ZZ_T_* function of the selftest
// corpus is executed in the engine and natively (go test -overlay); the digests
// they compute from concrete inputs must agree.  Also checks that a deliberately
// failing assertion is found and that its counterexample replays.
func cmdSelftest(args []string) int {
	repo, hdir := "/repo", "/verif/harness"
	pkg := modulePrefix + "/types"
	ov, _, err := buildOverlay(repo, hdir, []string{"selftest"}, "sym")
	if err != nil {
		fmt.Fprintln(os.Stderr, "selftest overlay:", err)
		return 2
	}
	var names []string
	for _, data := range ov {
		for _, m := range regexp.MustCompile(`(?m)^func (ZZ_T_\w+)\(\)`).FindAllStringSubmatch(string(data), -1) {
			names = append(names, m[1])
		}
	}
	sort.Strings(names)
	cfg := defaultConfig()
	cfg.MaxLoop = 1000000
	cfg.MaxSteps = 50000000
	eng, err := loadEngine(LoadSpec{RepoDir: repo, Patterns: []string{pkg}, Overlay: ov}, cfg)
	if err != nil {
		fmt.Fprintln(os.Stderr, "selftest load:", err)
		return 2
	}
	symb := map[string]string{}
	for _, n := range names {
		res, err := eng.RunHarness(pkg, n)
		if err != nil || len(res.Inconclusive) > 0 || len(res.Violations) > 0 || res.Paths != 1 {
			fmt.Printf("SELFTEST FAIL %s: engine run not clean: %v %v %v paths=%d\n", n, err, res.Inconclusive, res.Violations, res.Paths)
			return 2
		}
		for _, r := range res.Reached {
			if strings.HasPrefix(r, "digest:") {
				kv := strings.SplitN(r[7:], "=", 2)
				symb[kv[0]] = kv[1]
			}
		}
	}
	// native run
	tmp, err := os.MkdirTemp("/var/tmp", "verif.selftest.")
	if err != nil {
		fmt.Fprintln(os.Stderr, err)
		return 2
	}
	defer os.RemoveAll(tmp)
	nov, _, err := buildOverlay(repo, hdir, []string{"selftest"}, "native")
	if err != nil {
		fmt.Fprintln(os.Stderr, err)
		return 2
	}
	var tb strings.Builder
	tb.WriteString("package types\n\nimport \"testing\"\n\nfunc TestZZSelf(t *testing.T) {\n")
	for _, n := range names {
		tb.WriteString("\t" + n + "()\n")
	}
	tb.WriteString("}\n")
	nov[filepath.Join(repo, "types", "zz_verif_self_test.go")] = []byte(tb.String())
	repl := map[string]string{}
	i := 0
	for target, data := range nov {
		i++
		f := filepath.Join(tmp, fmt.Sprintf("f%03d_%s", i, filepath.Base(target)))
		os.WriteFile(f, data, 0644)
		repl[target] = f
	}
	ovj, _ := json.Marshal(map[string]interface{}{"Replace": repl})
	ovFile := filepath.Join(tmp, "overlay.json")
	os.WriteFile(ovFile, ovj, 0644)
	cmd := exec.Command("go", "test", "-v", "-vet=off", "-count=1", "-overlay", ovFile, "-run", "^TestZZSelf$", pkg)
	cmd.Dir = repo
	cmd.Env = append(os.Environ(), "GOFLAGS=-mod=mod", "GOPROXY=off", "GOSUMDB=off", "GOTOOLCHAIN=local")
	var buf bytes.Buffer
	cmd.Stdout = &buf
	cmd.Stderr = &buf
	if err := cmd.Run(); err != nil {
		fmt.Printf("SELFTEST FAIL: native run: %v\n%s\n", err, buf.String())
		return 2
	}
	native := map[string]string{}
	for _, l := range strings.Split(buf.String(), "\n") {
		l = strings.TrimSpace(l)
		if strings.HasPrefix(l, "ZZ-DIGEST ") {
			kv := strings.SplitN(l[10:], "=", 2)
			native[kv[0]] = kv[1]
		}
	}
	ok := true
	if len(native) == 0 || len(native) != len(symb) {
		fmt.Printf("SELFTEST FAIL: digest sets differ: native %d, engine %d\n", len(native), len(symb))
		ok = false
	}
	for k, v := range native {
		if symb[k] != v {
			fmt.Printf("SELFTEST FAIL: %s: native %s engine %s\n", k, v, symb[k])
			ok = false
		}
	}
	// vacuity / counterexample pipeline: a harness whose last assertion must fail
	eng.cfg.MaxLoop = 300
	res, err := eng.RunHarness(pkg, "ZZ_Basic")
	if err != nil || len(res.Violations) != 1 || res.Violations[0].ID != "expected.violation" {
		fmt.Printf("SELFTEST FAIL: reachability twin: expected exactly the planted violation, got %v %v\n", err, res)
		ok = false
	} else {
		rf := ReplayFile{Property: "selftest", Harness: "ZZ_Basic", Package: pkg, Sets: []string{"selftest"}, Assignment: res.Violations[0].Assignment}
		rf.Expect.Kind, rf.Expect.ID = "assert", "expected.violation"
		if repro, out := runReplay(repo, hdir, rf); !repro {
			fmt.Printf("SELFTEST FAIL: planted violation did not replay natively:\n%s\n", out)
			ok = false
		}
	}
	if !ok {
		return 2
	}
	fmt.Printf("selftest ok: %d corpus functions, %d digests agree natively and in the engine; planted violation found and replayed\n", len(names), len(native))
	return 0
}
