package main

// SMT terms: bit-vectors (width 1..64) and booleans, with constant folding and
// light algebraic simplification.  Terms are created per path (Ctx), hash-consed
// inside that path, and emitted to the solver incrementally as nullary define-funs.

import (
	"fmt"
	"strconv"
	"strings"
)

type Term struct {
	op    string // const, var, ite, =, not, and, or, bvadd ... extract, concat, zext, sext
	sort  int    // 0 = Bool, n>0 = (_ BitVec n)
	args  []*Term
	val   uint64 // constant value (masked); bool: 0/1
	name  string // variable name
	p1    int    // extract hi / extension amount
	p2    int    // extract lo
	id    int    // per-context id
	emit  bool   // already defined in the solver
	depth int
}

type TermCtx struct {
	next  int
	table map[string]*Term
	vars  []*Term
}

func newTermCtx() *TermCtx { return &TermCtx{table: map[string]*Term{}} }

func mask(w int) uint64 {
	if w >= 64 {
		return ^uint64(0)
	}
	return (uint64(1) << uint(w)) - 1
}

func (c *TermCtx) intern(t *Term) *Term {
	var sb strings.Builder
	sb.WriteString(t.op)
	sb.WriteByte('|')
	sb.WriteString(strconv.Itoa(t.sort))
	sb.WriteByte('|')
	for _, a := range t.args {
		sb.WriteString(strconv.Itoa(a.id))
		sb.WriteByte(',')
	}
	sb.WriteByte('|')
	sb.WriteString(strconv.FormatUint(t.val, 16))
	sb.WriteByte('|')
	sb.WriteString(t.name)
	sb.WriteByte('|')
	sb.WriteString(strconv.Itoa(t.p1))
	sb.WriteByte('|')
	sb.WriteString(strconv.Itoa(t.p2))
	k := sb.String()
	if o, ok := c.table[k]; ok {
		return o
	}
	c.next++
	t.id = c.next
	d := 0
	for _, a := range t.args {
		if a.depth > d {
			d = a.depth
		}
	}
	t.depth = d + 1
	c.table[k] = t
	return t
}

func (c *TermCtx) Const(w int, v uint64) *Term {
	return c.intern(&Term{op: "const", sort: w, val: v & mask(w)})
}
func (c *TermCtx) Bool(b bool) *Term {
	v := uint64(0)
	if b {
		v = 1
	}
	return c.intern(&Term{op: "const", sort: 0, val: v})
}
func (c *TermCtx) Var(name string, sort int) *Term {
	t := c.intern(&Term{op: "var", sort: sort, name: name})
	for _, v := range c.vars {
		if v == t {
			return t
		}
	}
	c.vars = append(c.vars, t)
	return t
}

func (t *Term) IsConst() bool { return t.op == "const" }
func (t *Term) IsTrue() bool  { return t.op == "const" && t.sort == 0 && t.val == 1 }
func (t *Term) IsFalse() bool { return t.op == "const" && t.sort == 0 && t.val == 0 }

// signed value of a constant
func (t *Term) SVal() int64 {
	w := t.sort
	v := t.val
	if w < 64 && v&(uint64(1)<<uint(w-1)) != 0 {
		v |= ^mask(w)
	}
	return int64(v)
}

func sext64(v uint64, w int) int64 {
	if w < 64 && v&(uint64(1)<<uint(w-1)) != 0 {
		v |= ^mask(w)
	}
	return int64(v)
}

func (c *TermCtx) Not(a *Term) *Term {
	if a.IsConst() {
		return c.Bool(a.val == 0)
	}
	if a.op == "not" {
		return a.args[0]
	}
	return c.intern(&Term{op: "not", sort: 0, args: []*Term{a}})
}

func (c *TermCtx) And(a, b *Term) *Term {
	if a.IsFalse() || b.IsFalse() {
		return c.Bool(false)
	}
	if a.IsTrue() {
		return b
	}
	if b.IsTrue() {
		return a
	}
	if a == b {
		return a
	}
	if a.id > b.id {
		a, b = b, a
	}
	return c.intern(&Term{op: "and", sort: 0, args: []*Term{a, b}})
}

func (c *TermCtx) Or(a, b *Term) *Term {
	if a.IsTrue() || b.IsTrue() {
		return c.Bool(true)
	}
	if a.IsFalse() {
		return b
	}
	if b.IsFalse() {
		return a
	}
	if a == b {
		return a
	}
	if a.id > b.id {
		a, b = b, a
	}
	return c.intern(&Term{op: "or", sort: 0, args: []*Term{a, b}})
}

func (c *TermCtx) Implies(a, b *Term) *Term { return c.Or(c.Not(a), b) }

func (c *TermCtx) Ite(cnd, a, b *Term) *Term {
	if cnd.IsTrue() {
		return a
	}
	if cnd.IsFalse() {
		return b
	}
	if a == b {
		return a
	}
	if a.sort != b.sort {
		panic(fmt.Sprintf("ite sort mismatch %d %d", a.sort, b.sort))
	}
	if a.sort == 0 {
		if a.IsTrue() && b.IsFalse() {
			return cnd
		}
		if a.IsFalse() && b.IsTrue() {
			return c.Not(cnd)
		}
	}
	return c.intern(&Term{op: "ite", sort: a.sort, args: []*Term{cnd, a, b}})
}

func (c *TermCtx) Eq(a, b *Term) *Term {
	if a.sort != b.sort {
		panic(fmt.Sprintf("eq sort mismatch %d %d (%s vs %s)", a.sort, b.sort, a.op, b.op))
	}
	if a == b {
		return c.Bool(true)
	}
	if a.IsConst() && b.IsConst() {
		return c.Bool(a.val == b.val)
	}
	if a.sort == 0 {
		if a.IsConst() {
			a, b = b, a
		}
		if b.IsTrue() {
			return a
		}
		if b.IsFalse() {
			return c.Not(a)
		}
	}
	// (= (ite c k1 k2) k) with constants
	if b.IsConst() && a.op == "ite" && a.args[1].IsConst() && a.args[2].IsConst() {
		return c.Ite(a.args[0], c.Bool(a.args[1].val == b.val), c.Bool(a.args[2].val == b.val))
	}
	if a.IsConst() && b.op == "ite" && b.args[1].IsConst() && b.args[2].IsConst() {
		return c.Ite(b.args[0], c.Bool(b.args[1].val == a.val), c.Bool(b.args[2].val == a.val))
	}
	if a.id > b.id {
		a, b = b, a
	}
	return c.intern(&Term{op: "=", sort: 0, args: []*Term{a, b}})
}

// Bin builds a bit-vector binary operation (result width = operand width).
func (c *TermCtx) Bin(op string, a, b *Term) *Term {
	w := a.sort
	if w != b.sort || w == 0 {
		panic(fmt.Sprintf("bin %s sort mismatch %d %d", op, a.sort, b.sort))
	}
	if a.IsConst() && b.IsConst() {
		x, y := a.val, b.val
		var r uint64
		switch op {
		case "bvadd":
			r = x + y
		case "bvsub":
			r = x - y
		case "bvmul":
			r = x * y
		case "bvand":
			r = x & y
		case "bvor":
			r = x | y
		case "bvxor":
			r = x ^ y
		case "bvudiv":
			if y == 0 {
				r = mask(w)
			} else {
				r = x / y
			}
		case "bvurem":
			if y == 0 {
				r = x
			} else {
				r = x % y
			}
		case "bvsdiv":
			sx, sy := sext64(x, w), sext64(y, w)
			if sy == 0 {
				if sx >= 0 {
					r = mask(w)
				} else {
					r = 1
				}
			} else if sy == -1 {
				r = uint64(-sx)
			} else {
				r = uint64(sx / sy)
			}
		case "bvsrem":
			sx, sy := sext64(x, w), sext64(y, w)
			if sy == 0 {
				r = x
			} else if sy == -1 {
				r = 0
			} else {
				r = uint64(sx % sy)
			}
		case "bvshl":
			if y >= uint64(w) {
				r = 0
			} else {
				r = x << y
			}
		case "bvlshr":
			if y >= uint64(w) {
				r = 0
			} else {
				r = x >> y
			}
		case "bvashr":
			sx := sext64(x, w)
			if y >= uint64(w) {
				if sx < 0 {
					r = mask(w)
				} else {
					r = 0
				}
			} else {
				r = uint64(sx >> y)
			}
		default:
			panic("bad bin op " + op)
		}
		return c.Const(w, r)
	}
	switch op {
	case "bvadd":
		if a.IsConst() && a.val == 0 {
			return b
		}
		if b.IsConst() && b.val == 0 {
			return a
		}
		// (x + k1) + k2
		if b.IsConst() && a.op == "bvadd" && a.args[1].IsConst() {
			return c.Bin("bvadd", a.args[0], c.Const(w, a.args[1].val+b.val))
		}
		if a.IsConst() {
			a, b = b, a
		}
	case "bvsub":
		if b.IsConst() && b.val == 0 {
			return a
		}
		if a == b {
			return c.Const(w, 0)
		}
		if b.IsConst() {
			return c.Bin("bvadd", a, c.Const(w, -b.val))
		}
	case "bvmul":
		if a.IsConst() {
			a, b = b, a
		}
		if b.IsConst() && b.val == 0 {
			return b
		}
		if b.IsConst() && b.val == 1 {
			return a
		}
	case "bvand":
		if a.IsConst() {
			a, b = b, a
		}
		if b.IsConst() && b.val == 0 {
			return b
		}
		if b.IsConst() && b.val == mask(w) {
			return a
		}
		if a == b {
			return a
		}
	case "bvor":
		if a.IsConst() {
			a, b = b, a
		}
		if b.IsConst() && b.val == 0 {
			return a
		}
		if a == b {
			return a
		}
	case "bvxor":
		if a.IsConst() {
			a, b = b, a
		}
		if b.IsConst() && b.val == 0 {
			return a
		}
	case "bvudiv", "bvsdiv":
		if b.IsConst() && b.val == 1 {
			return a
		}
	case "bvshl", "bvlshr", "bvashr":
		if b.IsConst() && b.val == 0 {
			return a
		}
	}
	return c.intern(&Term{op: op, sort: w, args: []*Term{a, b}})
}

// Cmp builds a comparison: bvult bvule bvslt bvsle (others derived).
func (c *TermCtx) Cmp(op string, a, b *Term) *Term {
	w := a.sort
	if w != b.sort || w == 0 {
		panic(fmt.Sprintf("cmp %s sort mismatch %d %d", op, a.sort, b.sort))
	}
	switch op {
	case "bvugt":
		return c.Cmp("bvult", b, a)
	case "bvuge":
		return c.Cmp("bvule", b, a)
	case "bvsgt":
		return c.Cmp("bvslt", b, a)
	case "bvsge":
		return c.Cmp("bvsle", b, a)
	}
	if a.IsConst() && b.IsConst() {
		switch op {
		case "bvult":
			return c.Bool(a.val < b.val)
		case "bvule":
			return c.Bool(a.val <= b.val)
		case "bvslt":
			return c.Bool(sext64(a.val, w) < sext64(b.val, w))
		case "bvsle":
			return c.Bool(sext64(a.val, w) <= sext64(b.val, w))
		}
	}
	if a == b {
		return c.Bool(op == "bvule" || op == "bvsle")
	}
	return c.intern(&Term{op: op, sort: 0, args: []*Term{a, b}})
}

func (c *TermCtx) Neg(a *Term) *Term  { return c.Bin("bvsub", c.Const(a.sort, 0), a) }
func (c *TermCtx) BNot(a *Term) *Term { return c.Bin("bvxor", a, c.Const(a.sort, mask(a.sort))) }

func (c *TermCtx) Extract(a *Term, hi, lo int) *Term {
	if lo == 0 && hi == a.sort-1 {
		return a
	}
	if a.IsConst() {
		return c.Const(hi-lo+1, a.val>>uint(lo))
	}
	if (a.op == "zext" || a.op == "sext") && lo == 0 && hi < a.args[0].sort {
		return c.Extract(a.args[0], hi, 0)
	}
	return c.intern(&Term{op: "extract", sort: hi - lo + 1, args: []*Term{a}, p1: hi, p2: lo})
}

// Resize converts width with zero or sign extension / truncation.
func (c *TermCtx) Resize(a *Term, w int, signed bool) *Term {
	if a.sort == w {
		return a
	}
	if a.sort > w {
		return c.Extract(a, w-1, 0)
	}
	if a.IsConst() {
		if signed {
			return c.Const(w, uint64(sext64(a.val, a.sort)))
		}
		return c.Const(w, a.val)
	}
	op := "zext"
	if signed {
		op = "sext"
	}
	return c.intern(&Term{op: op, sort: w, args: []*Term{a}, p1: w - a.sort})
}

func (c *TermCtx) Concat(hi, lo *Term) *Term {
	if hi.IsConst() && lo.IsConst() {
		return c.Const(hi.sort+lo.sort, hi.val<<uint(lo.sort)|lo.val)
	}
	return c.intern(&Term{op: "concat", sort: hi.sort + lo.sort, args: []*Term{hi, lo}})
}

func sortStr(s int) string {
	if s == 0 {
		return "Bool"
	}
	return fmt.Sprintf("(_ BitVec %d)", s)
}

func (t *Term) ref() string {
	switch t.op {
	case "const":
		if t.sort == 0 {
			if t.val == 1 {
				return "true"
			}
			return "false"
		}
		return fmt.Sprintf("(_ bv%d %d)", t.val, t.sort)
	case "var":
		return t.name
	}
	return "t" + strconv.Itoa(t.id)
}

// body renders the defining expression with references to sub-terms.
func (t *Term) body() string {
	switch t.op {
	case "extract":
		return fmt.Sprintf("((_ extract %d %d) %s)", t.p1, t.p2, t.args[0].ref())
	case "zext":
		return fmt.Sprintf("((_ zero_extend %d) %s)", t.p1, t.args[0].ref())
	case "sext":
		return fmt.Sprintf("((_ sign_extend %d) %s)", t.p1, t.args[0].ref())
	}
	var sb strings.Builder
	sb.WriteByte('(')
	sb.WriteString(t.op)
	for _, a := range t.args {
		sb.WriteByte(' ')
		sb.WriteString(a.ref())
	}
	sb.WriteByte(')')
	return sb.String()
}

// String renders a (small) term fully inline, for diagnostics.
func (t *Term) String() string {
	switch t.op {
	case "const", "var":
		return t.ref()
	}
	if t.depth > 6 {
		return "t" + strconv.Itoa(t.id) + "{...}"
	}
	switch t.op {
	case "extract":
		return fmt.Sprintf("((_ extract %d %d) %s)", t.p1, t.p2, t.args[0])
	case "zext":
		return fmt.Sprintf("((_ zero_extend %d) %s)", t.p1, t.args[0])
	case "sext":
		return fmt.Sprintf("((_ sign_extend %d) %s)", t.p1, t.args[0])
	}
	var sb strings.Builder
	sb.WriteByte('(')
	sb.WriteString(t.op)
	for _, a := range t.args {
		sb.WriteByte(' ')
		sb.WriteString(a.String())
	}
	sb.WriteByte(')')
	return sb.String()
}

// collect returns the sub-terms of roots in dependency order (children first).
func collectTerms(roots []*Term, seen map[*Term]bool, out *[]*Term) {
	var walk func(t *Term)
	walk = func(t *Term) {
		if seen[t] {
			return
		}
		seen[t] = true
		for _, a := range t.args {
			walk(a)
		}
		*out = append(*out, t)
	}
	for _, r := range roots {
		walk(r)
	}
}

// standaloneScript renders a self-contained SMT-LIB2 script asserting all of
// asserts; used for cross-checking with other solvers.
func standaloneScript(asserts []*Term, logic string) string {
	var sb strings.Builder
	if logic != "" {
		sb.WriteString("(set-logic " + logic + ")\n")
	}
	seen := map[*Term]bool{}
	var order []*Term
	collectTerms(asserts, seen, &order)
	for _, t := range order {
		switch t.op {
		case "var":
			fmt.Fprintf(&sb, "(declare-const %s %s)\n", t.name, sortStr(t.sort))
		case "const":
		default:
			fmt.Fprintf(&sb, "(define-fun %s () %s %s)\n", t.ref(), sortStr(t.sort), t.body())
		}
	}
	for _, a := range asserts {
		fmt.Fprintf(&sb, "(assert %s)\n", a.ref())
	}
	sb.WriteString("(check-sat)\n")
	return sb.String()
}
