package main

import (
	"fmt"
	"go/constant"
	"go/token"
	"go/types"
	"strings"
	"sync"

	"golang.org/x/tools/go/ssa"
)

type pathEnd struct {
	kind string // done panic fatal deadlock infeasible unsupported unwind internal leak
	msg  string
}

const (
	stNext = iota
	stJump
	stCall
	stBlock
)

type fnInfo struct {
	idx map[ssa.Value]int
	n   int
}

var fnInfoCache sync.Map

type methodKey struct {
	t types.Type
	m *types.Func
}

var methodCache sync.Map

// fnMeta caches per-function call resolution (names are expensive to render).
type fnMeta struct {
	name      string
	redirect  *ssa.Function
	intrinsic bool
	native    string
	hasNative bool
	interp    bool
	initFn    bool
}

func (e *Engine) meta(fn *ssa.Function) *fnMeta {
	if v, ok := e.metaCache.Load(fn); ok {
		return v.(*fnMeta)
	}
	m := &fnMeta{name: fn.String()}
	m.redirect = e.redirects[m.name]
	m.intrinsic = intrinsicNames[fn.Name()] && fn.Signature.Recv() == nil
	m.native, m.hasNative = nativeForFn(fn, m.name)
	m.interp = e.interpretFn(fn)
	m.initFn = fn.Name() == "init" || strings.HasPrefix(fn.Name(), "init#")
	e.metaCache.Store(fn, m)
	return m
}

func getFnInfo(fn *ssa.Function) *fnInfo {
	if v, ok := fnInfoCache.Load(fn); ok {
		return v.(*fnInfo)
	}
	fi := &fnInfo{idx: map[ssa.Value]int{}}
	add := func(v ssa.Value) {
		fi.idx[v] = fi.n
		fi.n++
	}
	for _, p := range fn.Params {
		add(p)
	}
	for _, p := range fn.FreeVars {
		add(p)
	}
	for _, b := range fn.Blocks {
		for _, in := range b.Instrs {
			if v, ok := in.(ssa.Value); ok {
				add(v)
			}
		}
	}
	v, _ := fnInfoCache.LoadOrStore(fn, fi)
	return v.(*fnInfo)
}

type deferred struct {
	fv   *FuncV
	args []Value
	// invoke-mode
	call *ssa.CallCommon
}

type Frame struct {
	fn       *ssa.Function
	info     *fnInfo
	block    *ssa.BasicBlock
	pc       int
	prev     *ssa.BasicBlock
	locals   []Value
	defers   []*deferred
	retIdx   int // index in caller locals, -1 = discard
	onReturn func(Value)
	backEdge map[int]int
}

type G struct {
	id         int
	frames     []*Frame
	done       bool
	result     Value
	wait       string
	waitRecv   *ChanObj
	waitSend   *ChanObj
	sendVal    Value
	sendTaken  bool
	sending    bool
	settleReq  bool
	settleDone bool
	napping    bool // blocked in time.Sleep (non-main goroutine)
	napDone    bool
	tries      []*tryMark
}

type tryMark struct {
	depth  int
	retIdx int
	fr     *Frame
}

type lockState struct {
	writer  bool
	readers int
	holder  int
	// goroutines blocked in Lock: Go's RWMutex gives a waiting writer preference, new
	// readers (also a reader that already holds the lock) queue behind it
	pending map[int]bool
}

type Violation struct {
	Kind       string            `json:"kind"` // assert panic fatal deadlock leak
	ID         string            `json:"id"`
	Msg        string            `json:"msg"`
	Assignment map[string]uint64 `json:"assignment"`
	Trace      []int             `json:"trace"`
	Where      string            `json:"where"`
	Script     string            `json:"-"`
}

type Path struct {
	eng     *Engine
	tc      *TermCtx
	sol     *Solver
	prefix  []int
	pos     int
	trace   []int
	pending [][]int
	pcs     []*Term

	gs  []*G
	cur *G

	globals  map[*ssa.Global]*Obj
	initDone map[*ssa.Package]bool
	locks    map[string]*lockState
	wgs      map[string]int
	onces    map[string]bool
	nextObj  int
	nextErr  int

	nondets        []*Term
	nondetCount    map[string]int
	steps          int
	reached        map[string]bool
	funcs          map[*ssa.Function]int
	violations     []Violation
	asserts        int
	obligations    int
	expectPanic    bool
	inconclusive   []string
	lastPos        token.Pos
	lastFn         *ssa.Function
	nativeState    map[string]interface{}
	symDecisions   int
	assertQueries  []string
	sample         *PathSummary
	constrained    map[*Term]bool
	redirectsUsed  map[string]int
	tried          []string
	pendingAsserts []pendingAssert
	known          map[*Term]bool
	visited        map[*Term]bool
}

func (p *Path) end(kind, msg string)   { panic(pathEnd{kind, msg}) }
func (p *Path) unsupported(msg string) { panic(pathEnd{"unsupported", msg + p.where()}) }
func (p *Path) internal(msg string)    { panic(pathEnd{"internal", msg + p.where()}) }

func (p *Path) where() string {
	if p.lastFn == nil {
		return ""
	}
	pos := p.eng.prog.Fset.Position(p.lastPos)
	return fmt.Sprintf(" [in %s at %s]", p.lastFn.String(), pos)
}

// runtimePanic: an unconditional Go run-time panic on this path.
func (p *Path) runtimePanic(msg string) {
	panic(pathEnd{"panic", msg + p.where()})
}

// obligation: cond must hold, otherwise the real code panics with msg.
func (p *Path) obligation(cond *Term, msg string) {
	if cond.IsTrue() {
		return
	}
	p.obligations++
	p.flushAsserts()
	if cond.IsFalse() {
		p.runtimePanic(msg)
	}
	r, model := p.sol.CheckModel(p.tc.Not(cond), p.nondets)
	switch r {
	case "sat":
		if !p.expectPanic {
			p.addViolation("panic", "panic", msg+p.where(), model)
		}
	case "unsat":
		return // the panic is impossible on this path; cond is implied
	default:
		p.inconclusive = append(p.inconclusive, "obligation "+msg+": solver "+r+" "+p.sol.LastErr)
	}
	// continue under the assumption that the panic did not happen
	if p.sol.Check(cond) != "unsat" {
		p.assume(cond)
	} else {
		p.runtimePanic(msg)
	}
}

func (p *Path) assume(c *Term) {
	p.sol.Assert(c)
	p.pcs = append(p.pcs, c)
	p.markConstrained(c)
	if p.known == nil {
		p.known = map[*Term]bool{}
	}
	if c.op == "not" {
		p.known[c.args[0]] = false
	} else {
		p.known[c] = true
	}
}

// knownValue: c (or its negation) is literally one of the assumed formulas.
func (p *Path) knownValue(c *Term) (bool, bool) {
	if p.known == nil {
		return false, false
	}
	if c.op == "not" {
		if v, ok := p.known[c.args[0]]; ok {
			return !v, true
		}
		return false, false
	}
	v, ok := p.known[c]
	return v, ok
}

// freeBoolVar returns the variable if c is a boolean variable or its negation.
func freeBoolVar(c *Term) *Term {
	if c.op == "not" {
		c = c.args[0]
	}
	if c.op == "var" && c.sort == 0 {
		return c
	}
	return nil
}

// markConstrained records every variable occurring in an assumed formula.
func (p *Path) markConstrained(c *Term) {
	if p.constrained == nil {
		p.constrained = map[*Term]bool{}
		p.visited = map[*Term]bool{}
	}
	var walk func(t *Term)
	walk = func(t *Term) {
		if p.visited[t] {
			return
		}
		p.visited[t] = true
		if t.op == "var" {
			p.constrained[t] = true
			return
		}
		for _, a := range t.args {
			walk(a)
		}
	}
	walk(c)
}

func (p *Path) addViolation(kind, id, msg string, model map[string]uint64) {
	if kind != "assert" {
		// identify run-time failures by the function they occur in
		id = "?"
		if p.lastFn != nil {
			id = p.lastFn.String()
		}
	}
	for _, v := range p.violations {
		if v.Kind == kind && v.ID == id {
			return
		}
	}
	tr := append([]int{}, p.trace...)
	p.violations = append(p.violations, Violation{Kind: kind, ID: id, Msg: msg, Assignment: model, Trace: tr, Where: p.where()})
}

// ---------------------------------------------------------------------------
// decisions

// branch decides a symbolic condition, forking when both sides are feasible.
func (p *Path) branch(c *Term) bool {
	if c.IsConst() {
		return c.val == 1
	}
	if val, ok := p.knownValue(c); ok {
		return val
	}
	p.symDecisions++
	if p.pos < len(p.prefix) {
		d := p.prefix[p.pos]
		p.pos++
		p.trace = append(p.trace, d)
		if d == 1 {
			p.assume(c)
			return true
		}
		p.assume(p.tc.Not(c))
		return false
	}
	p.pos++
	nc := p.tc.Not(c)
	if v := freeBoolVar(c); v != nil && !p.constrained[v] {
		// an input variable that no assumed formula mentions: both sides are feasible
		alt := append(append([]int{}, p.trace...), 0)
		p.pending = append(p.pending, alt)
		p.trace = append(p.trace, 1)
		p.assume(c)
		return true
	}
	rt := p.sol.Check(c)
	if rt == "unsat" {
		p.trace = append(p.trace, 0)
		p.assume(nc)
		return false
	}
	if rt != "sat" {
		p.inconclusive = append(p.inconclusive, "branch feasibility: solver "+rt+" "+p.sol.LastErr)
	}
	rf := p.sol.Check(nc)
	if rf == "unsat" {
		p.trace = append(p.trace, 1)
		p.assume(c)
		return true
	}
	if rf != "sat" {
		p.inconclusive = append(p.inconclusive, "branch feasibility: solver "+rf+" "+p.sol.LastErr)
	}
	alt := append(append([]int{}, p.trace...), 0)
	p.pending = append(p.pending, alt)
	p.trace = append(p.trace, 1)
	p.assume(c)
	return true
}

// concretize enumerates the feasible values of t (forking) and returns one.
func (p *Path) concretize(t *Term, what string) int64 {
	if t.IsConst() {
		return t.SVal()
	}
	p.symDecisions++
	if p.pos < len(p.prefix) {
		d := p.prefix[p.pos]
		p.pos++
		p.trace = append(p.trace, d)
		p.assume(p.tc.Eq(t, p.tc.Const(t.sort, uint64(int64(d)))))
		return int64(d)
	}
	p.pos++
	var vals []int64
	block := p.tc.Bool(true)
	capN := p.eng.cfg.EnumCap
	for {
		r, m := p.sol.CheckModel(block, []*Term{p.probeVar(t)})
		if r == "unsat" {
			break
		}
		if r != "sat" {
			p.inconclusive = append(p.inconclusive, "enumeration: solver "+r+" "+p.sol.LastErr)
			break
		}
		raw := m[p.probeVar(t).name]
		v := sext64(raw, t.sort)
		vals = append(vals, v)
		block = p.tc.And(block, p.tc.Not(p.tc.Eq(t, p.tc.Const(t.sort, raw))))
		if len(vals) > capN {
			p.end("unwind", fmt.Sprintf("more than %d feasible values for %s", capN, what)+p.where())
		}
	}
	if len(vals) == 0 {
		p.end("infeasible", "no feasible value for "+what)
	}
	// deterministic order
	for i := 1; i < len(vals); i++ {
		for j := i; j > 0 && vals[j] < vals[j-1]; j-- {
			vals[j], vals[j-1] = vals[j-1], vals[j]
		}
	}
	for _, v := range vals[1:] {
		alt := append(append([]int{}, p.trace...), int(v))
		p.pending = append(p.pending, alt)
	}
	p.trace = append(p.trace, int(vals[0]))
	p.assume(p.tc.Eq(t, p.tc.Const(t.sort, uint64(vals[0]))))
	return vals[0]
}

// probeVar returns a variable equal to t so that get-value can be used.
func (p *Path) probeVar(t *Term) *Term {
	if t.op == "var" {
		return t
	}
	name := fmt.Sprintf("|probe.%d|", t.id)
	v := p.tc.Var(name, t.sort)
	if !v.emit {
		p.sol.Assert(p.tc.Eq(v, t))
	}
	return v
}

// choose forks over n concrete alternatives (schedule / select choices).
func (p *Path) choose(n int, what string) int {
	if n <= 1 {
		return 0
	}
	if p.pos < len(p.prefix) {
		d := p.prefix[p.pos]
		p.pos++
		p.trace = append(p.trace, d)
		return d
	}
	p.pos++
	for k := 1; k < n; k++ {
		alt := append(append([]int{}, p.trace...), k)
		p.pending = append(p.pending, alt)
	}
	p.trace = append(p.trace, 0)
	return 0
}

// ---------------------------------------------------------------------------
// frames and values

func (p *Path) newFrame(fn *ssa.Function, args []Value, bind []Value, retIdx int) *Frame {
	if len(fn.Blocks) == 0 {
		p.unsupported("call of function without body: " + fn.String())
	}
	fi := getFnInfo(fn)
	fr := &Frame{fn: fn, info: fi, block: fn.Blocks[0], locals: make([]Value, fi.n), retIdx: retIdx}
	if len(args) != len(fn.Params) {
		p.internal(fmt.Sprintf("arity mismatch calling %s: %d args, %d params", fn, len(args), len(fn.Params)))
	}
	for i, a := range args {
		fr.locals[fi.idx[fn.Params[i]]] = a
	}
	for i, b := range bind {
		fr.locals[fi.idx[fn.FreeVars[i]]] = b
	}
	p.funcs[fn]++
	return fr
}

func (p *Path) get(fr *Frame, v ssa.Value) Value {
	switch x := v.(type) {
	case *ssa.Const:
		return p.constValue(x)
	case *ssa.Global:
		return &Ptr{obj: p.globalObj(x)}
	case *ssa.Function:
		return &FuncV{fn: x}
	case *ssa.Builtin:
		return &FuncV{native: "builtin:" + x.Name()}
	}
	i, ok := fr.info.idx[v]
	if !ok {
		p.internal("unknown ssa value " + v.Name() + " in " + fr.fn.String())
	}
	return fr.locals[i]
}

func (p *Path) set(fr *Frame, v ssa.Value, val Value) {
	fr.locals[fr.info.idx[v]] = val
}

func (p *Path) constValue(c *ssa.Const) Value {
	t := c.Type()
	if c.Value == nil {
		return p.zero(t)
	}
	if w, signed, ok := intWidth(t); ok {
		if signed {
			i, _ := constant.Int64Val(constant.ToInt(c.Value))
			return p.tc.Const(w, uint64(i))
		}
		u, _ := constant.Uint64Val(constant.ToInt(c.Value))
		return p.tc.Const(w, u)
	}
	switch {
	case isBool(t):
		return p.tc.Bool(constant.BoolVal(c.Value))
	case isString(t):
		return conc(constant.StringVal(c.Value))
	case isFloat(t):
		f, _ := constant.Float64Val(c.Value)
		return FloatV(f)
	}
	p.unsupported("constant of type " + t.String())
	return nil
}

func (p *Path) globalObj(g *ssa.Global) *Obj {
	if o, ok := p.globals[g]; ok {
		return o
	}
	elem := g.Type().(*types.Pointer).Elem()
	if v, ok := p.nativeGlobal(g); ok {
		o := p.newObj(elem, v, "global "+g.String())
		p.globals[g] = o
		return o
	}
	o := p.newObj(elem, p.zero(elem), "global "+g.String())
	p.globals[g] = o
	if g.Pkg != nil && p.eng.interpretPkg(g.Pkg.Pkg) {
		p.initPackage(g.Pkg)
	}
	return o
}

// initPackage interprets the synthesized package initializer for variable
// initialisation only: calls to other init functions and user init() bodies are skipped.
func (p *Path) initPackage(pkg *ssa.Package) {
	if p.initDone[pkg] {
		return
	}
	p.initDone[pkg] = true
	initFn := pkg.Func("init")
	if initFn == nil || len(initFn.Blocks) == 0 {
		return
	}
	g := &G{id: -1}
	saved := p.cur
	savedFn, savedPos := p.lastFn, p.lastPos
	p.cur = g
	fr := p.newFrame(initFn, nil, nil, -1)
	g.frames = append(g.frames, fr)
	// the init guard global must read false
	blocked, _ := p.runG(g, 0)
	if blocked {
		p.unsupported("package init blocked: " + pkg.Pkg.Path())
	}
	p.cur = saved
	p.lastFn, p.lastPos = savedFn, savedPos
}

// ---------------------------------------------------------------------------
// goroutine execution

func (p *Path) runG(g *G, stopDepth int) (blocked bool, progressed bool) {
	saved := p.cur
	p.cur = g
	defer func() { p.cur = saved }()
	for len(g.frames) > stopDepth {
		fr := g.frames[len(g.frames)-1]
		if fr.pc >= len(fr.block.Instrs) {
			p.internal("fell off block in " + fr.fn.String())
		}
		in := fr.block.Instrs[fr.pc]
		p.steps++
		if p.steps > p.eng.cfg.MaxSteps {
			p.end("unwind", fmt.Sprintf("instruction budget %d exceeded", p.eng.cfg.MaxSteps)+p.where())
		}
		if pos := in.Pos(); pos != token.NoPos {
			p.lastPos = pos
		}
		p.lastFn = fr.fn
		var st int
		if len(g.tries) > 0 {
			st = p.execTry(g, fr, in)
		} else {
			st = p.exec(g, fr, in)
		}
		switch st {
		case stNext:
			fr.pc++
			progressed = true
		case stJump, stCall:
			progressed = true
		case stBlock:
			return true, progressed
		}
	}
	return false, progressed
}

// execTry: exec inside a zzTry region: a panic / fatal exit of the code under test
// abandons the frames down to the zzTry call (no deferred calls run) and makes
// zzTry return true.
func (p *Path) execTry(g *G, fr *Frame, in ssa.Instruction) (st int) {
	defer func() {
		if r := recover(); r != nil {
			pe, ok := r.(pathEnd)
			if !ok || (pe.kind != "panic" && pe.kind != "fatal") || len(g.tries) == 0 {
				panic(r)
			}
			mark := g.tries[len(g.tries)-1]
			g.tries = g.tries[:len(g.tries)-1]
			g.frames = g.frames[:mark.depth]
			if mark.retIdx >= 0 {
				mark.fr.locals[mark.retIdx] = p.tc.Bool(true)
			}
			p.tried = append(p.tried, pe.kind+": "+pe.msg)
			st = stJump
		}
	}()
	return p.exec(g, fr, in)
}

func (p *Path) jump(fr *Frame, to *ssa.BasicBlock) {
	if to.Index <= fr.block.Index {
		if fr.backEdge == nil {
			fr.backEdge = map[int]int{}
		}
		fr.backEdge[to.Index]++
		if len(p.eng.cfg.BoundedLoops) > 0 {
			name := fr.fn.String()
			for sub, bound := range p.eng.cfg.BoundedLoops {
				if fr.backEdge[to.Index] > bound && strings.Contains(name, sub) {
					p.lastFn = fr.fn
					p.end("hang", fmt.Sprintf("loop in %s runs past %d iterations: it does not terminate", name, bound)+p.where())
				}
			}
		}
		if fr.backEdge[to.Index] > p.eng.cfg.MaxLoop {
			p.end("unwind", fmt.Sprintf("loop bound %d exceeded in %s", p.eng.cfg.MaxLoop, fr.fn)+p.where())
		}
	}
	fr.prev = fr.block
	fr.block = to
	fr.pc = 0
	// evaluate phis simultaneously
	var vals []Value
	n := 0
	for _, in := range to.Instrs {
		phi, ok := in.(*ssa.Phi)
		if !ok {
			break
		}
		pi := -1
		for i, pr := range to.Preds {
			if pr == fr.prev {
				pi = i
				break
			}
		}
		vals = append(vals, p.get(fr, phi.Edges[pi]))
		n++
	}
	for i := 0; i < n; i++ {
		p.set(fr, to.Instrs[i].(*ssa.Phi), vals[i])
	}
	fr.pc = n
}

func (p *Path) exec(g *G, fr *Frame, in ssa.Instruction) int {
	switch x := in.(type) {
	case *ssa.DebugRef:
		return stNext
	case *ssa.Alloc:
		et := x.Type().(*types.Pointer).Elem()
		o := p.newObj(et, p.zero(et), x.Comment)
		p.set(fr, x, &Ptr{obj: o})
		return stNext
	case *ssa.BinOp:
		p.set(fr, x, p.binop(x.Op, p.get(fr, x.X), p.get(fr, x.Y), x.X.Type(), x.Y.Type()))
		return stNext
	case *ssa.UnOp:
		return p.unop(g, fr, x)
	case *ssa.Phi:
		p.internal("phi reached in exec")
	case *ssa.Call:
		return p.doCall(g, fr, &x.Call, x, false)
	case *ssa.Go:
		p.doGo(fr, &x.Call)
		return stNext
	case *ssa.Defer:
		fv, args := p.resolveCall(fr, &x.Call)
		fr.defers = append(fr.defers, &deferred{fv: fv, args: args})
		return stNext
	case *ssa.RunDefers:
		if len(fr.defers) == 0 {
			return stNext
		}
		d := fr.defers[len(fr.defers)-1]
		// a native deferred call may block (Lock); only pop when it completes
		st := p.invoke(g, fr, d.fv, d.args, -1, func() { fr.defers = fr.defers[:len(fr.defers)-1] })
		if st == stBlock {
			return stBlock
		}
		return stJump // re-execute RunDefers until the list is empty
	case *ssa.ChangeInterface:
		p.set(fr, x, p.get(fr, x.X))
		return stNext
	case *ssa.ChangeType:
		p.set(fr, x, p.get(fr, x.X))
		return stNext
	case *ssa.Convert:
		p.set(fr, x, p.convert(p.get(fr, x.X), x.X.Type(), x.Type()))
		return stNext
	case *ssa.MakeInterface:
		p.set(fr, x, IfaceV{t: x.X.Type(), v: p.get(fr, x.X)})
		return stNext
	case *ssa.Extract:
		p.set(fr, x, p.get(fr, x.Tuple).(TupleV)[x.Index])
		return stNext
	case *ssa.Field:
		p.set(fr, x, p.get(fr, x.X).(StructV).f[x.Field])
		return stNext
	case *ssa.FieldAddr:
		ptr, _ := p.get(fr, x.X).(*Ptr)
		if ptr == nil {
			p.runtimePanic("nil pointer dereference (field address)")
		}
		p.set(fr, x, ptr.extend(PathElem{idx: x.Field}))
		return stNext
	case *ssa.Index:
		p.set(fr, x, p.index(p.get(fr, x.X), p.get(fr, x.Index), x.X.Type()))
		return stNext
	case *ssa.IndexAddr:
		p.set(fr, x, p.indexAddr(p.get(fr, x.X), p.get(fr, x.Index), x.X.Type()))
		return stNext
	case *ssa.Lookup:
		p.set(fr, x, p.lookup(p.get(fr, x.X), p.get(fr, x.Index), x.X.Type(), x.CommaOk))
		return stNext
	case *ssa.MapUpdate:
		m, _ := p.get(fr, x.Map).(*MapObj)
		if m == nil {
			p.runtimePanic("assignment to entry in nil map")
		}
		k := p.concKey(p.get(fr, x.Key))
		m.set(p.keyOf(k), k, p.get(fr, x.Value))
		return stNext
	case *ssa.MakeMap:
		mt := x.Type().Underlying().(*types.Map)
		p.set(fr, x, p.newMap(mt.Key(), mt.Elem()))
		return stNext
	case *ssa.MakeChan:
		n := int(p.concInt(p.get(fr, x.Size), "chan size"))
		p.nextObj++
		p.set(fr, x, &ChanObj{id: p.nextObj, cap: n, etyp: x.Type().Underlying().(*types.Chan).Elem()})
		return stNext
	case *ssa.MakeSlice:
		ln := p.concInt(p.get(fr, x.Len), "make len")
		cp := p.concInt(p.get(fr, x.Cap), "make cap")
		if ln < 0 || cp < ln {
			p.runtimePanic("makeslice: len out of range")
		}
		if cp > int64(p.eng.cfg.MaxAlloc) {
			p.end("unwind", fmt.Sprintf("make of %d elements exceeds allocation bound", cp)+p.where())
		}
		p.set(fr, x, p.makeSlice(x.Type().Underlying().(*types.Slice).Elem(), int(ln), int(cp)))
		return stNext
	case *ssa.MakeClosure:
		bind := make([]Value, len(x.Bindings))
		for i, b := range x.Bindings {
			bind[i] = p.get(fr, b)
		}
		p.set(fr, x, &FuncV{fn: x.Fn.(*ssa.Function), bind: bind})
		return stNext
	case *ssa.Slice:
		p.set(fr, x, p.sliceOp(fr, x))
		return stNext
	case *ssa.Store:
		ptr, _ := p.get(fr, x.Addr).(*Ptr)
		p.store(ptr, p.get(fr, x.Val))
		return stNext
	case *ssa.TypeAssert:
		p.set(fr, x, p.typeAssert(p.get(fr, x.X), x))
		return stNext
	case *ssa.Range:
		v := p.get(fr, x.X)
		if s, ok := v.(StrV); ok {
			p.set(fr, x, &RangeIter{isStr: true, str: p.concStr(s, "range string")})
		} else {
			m, _ := v.(*MapObj)
			keys := m.liveKeys()
			keys = p.permuteKeys(keys)
			p.set(fr, x, &RangeIter{m: m, keys: keys})
		}
		return stNext
	case *ssa.Next:
		it := p.get(fr, x.Iter).(*RangeIter)
		p.set(fr, x, p.next(it, x))
		return stNext
	case *ssa.If:
		c := p.get(fr, x.Cond).(*Term)
		if p.branch(c) {
			p.jump(fr, fr.block.Succs[0])
		} else {
			p.jump(fr, fr.block.Succs[1])
		}
		return stJump
	case *ssa.Jump:
		p.jump(fr, fr.block.Succs[0])
		return stJump
	case *ssa.Return:
		var res Value
		switch len(x.Results) {
		case 0:
		case 1:
			res = p.get(fr, x.Results[0])
		default:
			tv := make(TupleV, len(x.Results))
			for i, r := range x.Results {
				tv[i] = p.get(fr, r)
			}
			res = tv
		}
		p.doReturn(g, fr, res)
		return stJump
	case *ssa.Panic:
		v := p.get(fr, x.X)
		p.end("panic", "explicit panic: "+p.describe(v)+p.where())
	case *ssa.Send:
		ch, _ := p.get(fr, x.Chan).(*ChanObj)
		if p.chanSend(g, ch, p.get(fr, x.X)) {
			return stNext
		}
		return stBlock
	case *ssa.Select:
		return p.doSelect(g, fr, x)
	default:
		p.unsupported(fmt.Sprintf("instruction %T", in))
	}
	return stNext
}

func (p *Path) doReturn(g *G, fr *Frame, res Value) {
	g.frames = g.frames[:len(g.frames)-1]
	if fr.onReturn != nil {
		fr.onReturn(res)
	}
	if len(g.frames) == 0 {
		g.done = true
		g.result = res
		return
	}
	if fr.retIdx >= 0 {
		caller := g.frames[len(g.frames)-1]
		caller.locals[fr.retIdx] = res
	}
}

func (p *Path) describe(v Value) string {
	switch x := v.(type) {
	case IfaceV:
		if x.t == nil {
			return "nil"
		}
		return p.describe(x.v)
	case StrV:
		return p.concStrNoFork(x)
	case *Term:
		return x.String()
	case *NativeV:
		if e, ok := x.v.(*ErrObj); ok {
			return "error(" + e.msg + ")"
		}
	}
	return fmt.Sprintf("%T", v)
}

func (p *Path) concStrNoFork(s StrV) string {
	switch s.kind {
	case strConc:
		return s.s
	case strEnum:
		if s.idx.IsConst() {
			return s.pool[s.idx.val]
		}
		return "<enum " + strings.Join(s.pool, "|") + ">"
	case strDec:
		if s.dec.IsConst() {
			return fmt.Sprint(s.dec.SVal())
		}
		return "<dec>"
	}
	return "<opaque " + s.s + ">"
}

// ---------------------------------------------------------------------------
// calls

// resolveCall evaluates callee and arguments of a call site.
func (p *Path) resolveCall(fr *Frame, cc *ssa.CallCommon) (*FuncV, []Value) {
	args := make([]Value, 0, len(cc.Args)+1)
	if cc.IsInvoke() {
		recv := p.get(fr, cc.Value)
		iv, ok := recv.(IfaceV)
		if !ok || iv.t == nil {
			p.runtimePanic("nil pointer dereference (method call on nil interface " + cc.Method.Name() + ")")
		}
		fv := p.lookupMethod(iv, cc.Method)
		args = append(args, iv.v)
		for _, a := range cc.Args {
			args = append(args, p.get(fr, a))
		}
		return fv, args
	}
	callee := p.get(fr, cc.Value)
	fv, _ := callee.(*FuncV)
	if fv == nil {
		p.runtimePanic("call of nil function")
	}
	for _, a := range cc.Args {
		args = append(args, p.get(fr, a))
	}
	return fv, args
}

func (p *Path) lookupMethod(iv IfaceV, m *types.Func) *FuncV {
	if _, ok := iv.v.(*NativeV); ok && p.isNativeType(iv.t) {
		return &FuncV{native: "noop", sig: m.Type().(*types.Signature)}
	}
	key := methodKey{iv.t, m}
	if f, ok := methodCache.Load(key); ok {
		return &FuncV{fn: f.(*ssa.Function)}
	}
	ms := p.eng.prog.MethodSets.MethodSet(iv.t)
	sel := ms.Lookup(m.Pkg(), m.Name())
	if sel == nil {
		p.internal("method " + m.Name() + " not found on " + iv.t.String())
	}
	fn := p.eng.prog.MethodValue(sel)
	if fn == nil {
		p.internal("no method value for " + m.Name() + " on " + iv.t.String())
	}
	methodCache.Store(key, fn)
	return &FuncV{fn: fn}
}

func (p *Path) doCall(g *G, fr *Frame, cc *ssa.CallCommon, callInstr *ssa.Call, _ bool) int {
	fv, args := p.resolveCall(fr, cc)
	retIdx := fr.info.idx[callInstr]
	st := p.invoke(g, fr, fv, args, retIdx, nil)
	return st
}

// invoke calls fv.  For natives the result is stored immediately and stNext is
// returned (or stBlock with no effect).  For interpreted functions a frame is
// pushed; the caller's pc is advanced first (unless onDone is given, in which case
// the caller re-executes the current instruction after the callee returns).
func (p *Path) invoke(g *G, fr *Frame, fv *FuncV, args []Value, retIdx int, onDone func()) int {
	if fv.hasRcv {
		args = append([]Value{fv.recv}, args...)
	}
	if fv.fn != nil {
		m := p.eng.meta(fv.fn)
		if g.id == -1 && m.initFn {
			// package initialisation: only variable initialisers are interpreted
			if onDone != nil {
				onDone()
			}
			return stNext
		}
		if m.redirect != nil {
			fv = &FuncV{fn: m.redirect}
			p.redirectsUsed[m.name]++
		} else if m.intrinsic && fv.fn.Name() == "zzTry" {
			// run the closure; a panic or process exit inside it is caught here
			f, _ := args[0].(*FuncV)
			if f == nil || f.fn == nil {
				p.internal("zzTry needs a function literal")
			}
			nf := p.newFrame(f.fn, nil, f.bind, -1)
			mark := &tryMark{depth: len(g.frames), retIdx: retIdx, fr: fr}
			nf.onReturn = func(Value) {
				if n := len(g.tries); n > 0 && g.tries[n-1] == mark {
					g.tries = g.tries[:n-1]
				}
				if retIdx >= 0 {
					fr.locals[retIdx] = p.tc.Bool(false)
				}
			}
			g.tries = append(g.tries, mark)
			if onDone != nil {
				onDone()
			} else {
				fr.pc++
			}
			g.frames = append(g.frames, nf)
			return stCall
		} else if m.intrinsic {
			res, st := p.intrinsic(g, fr, fv.fn, args)
			if st == stBlock {
				return stBlock
			}
			if retIdx >= 0 {
				fr.locals[retIdx] = res
			}
			if onDone != nil {
				onDone()
			}
			return stNext
		} else if m.hasNative {
			fv = &FuncV{native: m.native, fn: fv.fn, bind: fv.bind}
		} else if !m.interp {
			p.unsupported("call into uninterpreted function " + m.name)
		}
	}
	if fv.native != "" {
		res, st := p.callNative(g, fr, fv, args)
		if st == stBlock {
			return stBlock
		}
		if st == stCall {
			// native pushed a frame (tail call into a closure)
			if onDone != nil {
				onDone()
			} else {
				fr.pc++
			}
			return stCall
		}
		if retIdx >= 0 {
			fr.locals[retIdx] = res
		}
		if onDone != nil {
			onDone()
		}
		return stNext
	}
	nf := p.newFrame(fv.fn, args, fv.bind, retIdx)
	if len(g.frames) > p.eng.cfg.MaxDepth {
		p.end("unwind", "call depth exceeded"+p.where())
	}
	if onDone != nil {
		onDone()
	} else {
		fr.pc++
	}
	g.frames = append(g.frames, nf)
	return stCall
}

// callSync runs fv to completion inside the current goroutine and returns its result.
func (p *Path) callSync(g *G, fv *FuncV, args []Value) Value {
	if fv.hasRcv {
		args = append([]Value{fv.recv}, args...)
	}
	if fv.fn == nil || fv.native != "" {
		p.unsupported("callSync of native")
	}
	var out Value
	nf := p.newFrame(fv.fn, args, fv.bind, -1)
	nf.onReturn = func(v Value) { out = v }
	depth := len(g.frames)
	g.frames = append(g.frames, nf)
	blocked, _ := p.runG(g, depth)
	if blocked {
		p.unsupported("blocking operation inside a synchronous native callback")
	}
	return out
}

func (p *Path) doGo(fr *Frame, cc *ssa.CallCommon) {
	fv, args := p.resolveCall(fr, cc)
	if fv.hasRcv {
		args = append([]Value{fv.recv}, args...)
		fv = &FuncV{fn: fv.fn, bind: fv.bind, native: fv.native}
	}
	ng := &G{id: len(p.gs)}
	if fv.fn != nil {
		if m := p.eng.meta(fv.fn); m.redirect != nil {
			fv = &FuncV{fn: m.redirect}
		}
	}
	if fv.native != "" || fv.fn == nil || !p.eng.meta(fv.fn).interp {
		// a goroutine running a native: ignore no-ops, refuse others
		if fv.fn != nil {
			if m := p.eng.meta(fv.fn); m.hasNative && m.native == "noop" {
				return
			}
		}
		p.unsupported("go statement on native function")
	}
	ng.frames = append(ng.frames, p.newFrame(fv.fn, args, fv.bind, -1))
	p.gs = append(p.gs, ng)
}

// ---------------------------------------------------------------------------
// operators

func (p *Path) unop(g *G, fr *Frame, x *ssa.UnOp) int {
	v := p.get(fr, x.X)
	switch x.Op {
	case token.MUL:
		ptr, _ := v.(*Ptr)
		if ptr == nil {
			p.runtimePanic("nil pointer dereference")
		}
		p.set(fr, x, p.load(ptr))
	case token.NOT:
		p.set(fr, x, p.tc.Not(v.(*Term)))
	case token.SUB:
		if f, ok := v.(FloatV); ok {
			p.set(fr, x, -f)
		} else {
			p.set(fr, x, p.tc.Neg(v.(*Term)))
		}
	case token.XOR:
		p.set(fr, x, p.tc.BNot(v.(*Term)))
	case token.ARROW:
		ch, _ := v.(*ChanObj)
		val, ok, ready := p.chanRecv(g, ch)
		if !ready {
			return stBlock
		}
		if x.CommaOk {
			p.set(fr, x, TupleV{val, p.tc.Bool(ok)})
		} else {
			p.set(fr, x, val)
		}
	default:
		p.unsupported("unary op " + x.Op.String())
	}
	return stNext
}

func (p *Path) binop(op token.Token, a, b Value, ta, tb types.Type) Value {
	switch op {
	case token.EQL:
		return p.eqValue(a, b)
	case token.NEQ:
		return p.tc.Not(p.eqValue(a, b))
	}
	switch x := a.(type) {
	case *Term:
		y := b.(*Term)
		if x.sort == 0 {
			switch op {
			case token.AND, token.LAND:
				return p.tc.And(x, y)
			case token.OR, token.LOR:
				return p.tc.Or(x, y)
			case token.XOR:
				return p.tc.Not(p.tc.Eq(x, y))
			}
			p.unsupported("bool binop " + op.String())
		}
		_, signed, _ := intWidth(ta)
		switch op {
		case token.SHL, token.SHR:
			return p.shift(op, x, y, signed, tb)
		}
		if x.sort != y.sort {
			p.internal(fmt.Sprintf("binop %s width mismatch %d %d", op, x.sort, y.sort))
		}
		switch op {
		case token.ADD:
			return p.tc.Bin("bvadd", x, y)
		case token.SUB:
			return p.tc.Bin("bvsub", x, y)
		case token.MUL:
			return p.tc.Bin("bvmul", x, y)
		case token.QUO, token.REM:
			p.obligation(p.tc.Not(p.tc.Eq(y, p.tc.Const(y.sort, 0))), "integer divide by zero")
			if signed {
				if op == token.QUO {
					return p.tc.Bin("bvsdiv", x, y)
				}
				return p.tc.Bin("bvsrem", x, y)
			}
			if op == token.QUO {
				return p.tc.Bin("bvudiv", x, y)
			}
			return p.tc.Bin("bvurem", x, y)
		case token.AND:
			return p.tc.Bin("bvand", x, y)
		case token.OR:
			return p.tc.Bin("bvor", x, y)
		case token.XOR:
			return p.tc.Bin("bvxor", x, y)
		case token.AND_NOT:
			return p.tc.Bin("bvand", x, p.tc.BNot(y))
		case token.LSS:
			if signed {
				return p.tc.Cmp("bvslt", x, y)
			}
			return p.tc.Cmp("bvult", x, y)
		case token.LEQ:
			if signed {
				return p.tc.Cmp("bvsle", x, y)
			}
			return p.tc.Cmp("bvule", x, y)
		case token.GTR:
			if signed {
				return p.tc.Cmp("bvsgt", x, y)
			}
			return p.tc.Cmp("bvugt", x, y)
		case token.GEQ:
			if signed {
				return p.tc.Cmp("bvsge", x, y)
			}
			return p.tc.Cmp("bvuge", x, y)
		}
	case StrV:
		y := b.(StrV)
		switch op {
		case token.ADD:
			if x.kind == strConc && y.kind == strConc {
				return conc(x.s + y.s)
			}
			if x.kind == strConc && x.s == "" {
				return y
			}
			if y.kind == strConc && y.s == "" {
				return x
			}
			// concatenation with an enum: enum over the products
			if (x.kind == strConc || x.kind == strEnum) && (y.kind == strConc || y.kind == strEnum) {
				if x.kind == strEnum && y.kind == strConc {
					pool := make([]string, len(x.pool))
					for i, s := range x.pool {
						pool[i] = s + y.s
					}
					return StrV{kind: strEnum, pool: pool, idx: x.idx}
				}
				if x.kind == strConc && y.kind == strEnum {
					pool := make([]string, len(y.pool))
					for i, s := range y.pool {
						pool[i] = x.s + s
					}
					return StrV{kind: strEnum, pool: pool, idx: y.idx}
				}
			}
			return conc(p.concStr(x, "string concat") + p.concStr(y, "string concat"))
		case token.LSS, token.LEQ, token.GTR, token.GEQ:
			sx, sy := p.concStr(x, "string compare"), p.concStr(y, "string compare")
			var r bool
			switch op {
			case token.LSS:
				r = sx < sy
			case token.LEQ:
				r = sx <= sy
			case token.GTR:
				r = sx > sy
			case token.GEQ:
				r = sx >= sy
			}
			return p.tc.Bool(r)
		}
	case FloatV:
		y, ok := b.(FloatV)
		if !ok {
			p.unsupported("float binop with non-float")
		}
		switch op {
		case token.ADD:
			return x + y
		case token.SUB:
			return x - y
		case token.MUL:
			return x * y
		case token.QUO:
			return x / y
		case token.LSS:
			return p.tc.Bool(x < y)
		case token.LEQ:
			return p.tc.Bool(x <= y)
		case token.GTR:
			return p.tc.Bool(x > y)
		case token.GEQ:
			return p.tc.Bool(x >= y)
		}
	}
	p.unsupported(fmt.Sprintf("binop %s on %T", op, a))
	return nil
}

func (p *Path) shift(op token.Token, x, y *Term, signed bool, tb types.Type) Value {
	w := x.sort
	// shift count is unsigned (or checked non-negative by the compiler); resize to w
	cnt := y
	if cnt.sort > w {
		// large count: if any high bits set the result saturates
		hi := p.tc.Extract(cnt, cnt.sort-1, w)
		lo := p.tc.Extract(cnt, w-1, 0)
		over := p.tc.Not(p.tc.Eq(hi, p.tc.Const(hi.sort, 0)))
		lo = p.tc.Ite(over, p.tc.Const(w, uint64(w)), lo)
		cnt = lo
	} else if cnt.sort < w {
		cnt = p.tc.Resize(cnt, w, false)
	}
	switch op {
	case token.SHL:
		return p.tc.Bin("bvshl", x, cnt)
	default:
		if signed {
			return p.tc.Bin("bvashr", x, cnt)
		}
		return p.tc.Bin("bvlshr", x, cnt)
	}
}

func (p *Path) strEq(x, y StrV) *Term {
	if x.kind == strConc && y.kind == strConc {
		return p.tc.Bool(x.s == y.s)
	}
	if x.kind == strDec && y.kind == strDec {
		return p.tc.Eq(x.dec, y.dec)
	}
	if x.kind == strDec || y.kind == strDec {
		if y.kind == strDec {
			x, y = y, x
		}
		if y.kind == strConc {
			// equal iff the concrete string is the canonical decimal of the value
			var v int64
			if _, err := fmt.Sscanf(y.s, "%d", &v); err == nil && fmt.Sprint(v) == y.s {
				return p.tc.Eq(x.dec, p.tc.Const(64, uint64(v)))
			}
			return p.tc.Bool(false)
		}
		p.unsupported("decimal string compared with enum/opaque")
	}
	if x.kind == strOpaque || y.kind == strOpaque {
		if x.kind == strOpaque && y.kind == strOpaque && x.id == y.id {
			return p.tc.Bool(true)
		}
		if x.kind == strConc && x.s == "" || y.kind == strConc && y.s == "" {
			// opaque strings come from formatting and are never empty
			return p.tc.Bool(false)
		}
		p.unsupported("comparison of opaque string")
	}
	ex, ey := p.asEnum(x), p.asEnum(y)
	res := p.tc.Bool(false)
	for i, s := range ex.pool {
		for j, t := range ey.pool {
			if s == t {
				res = p.tc.Or(res, p.tc.And(p.tc.Eq(ex.idx, p.tc.Const(32, uint64(i))), p.tc.Eq(ey.idx, p.tc.Const(32, uint64(j)))))
			}
		}
	}
	return res
}

func (p *Path) eqValue(a, b Value) *Term {
	if a == nil && b == nil {
		return p.tc.Bool(true)
	}
	switch x := a.(type) {
	case *Term:
		y, ok := b.(*Term)
		if !ok {
			p.internal(fmt.Sprintf("eq term vs %T", b))
		}
		return p.tc.Eq(x, y)
	case StrV:
		return p.strEq(x, b.(StrV))
	case FloatV:
		return p.tc.Bool(x == b.(FloatV))
	case *Ptr:
		y, _ := b.(*Ptr)
		if x == nil || y == nil {
			return p.tc.Bool(x == nil && y == nil)
		}
		return p.tc.Bool(x.obj == y.obj && x.key() == y.key())
	case SliceV:
		y, _ := b.(SliceV)
		return p.tc.Bool(x.base == nil && y.base == nil)
	case *MapObj:
		y, _ := b.(*MapObj)
		return p.tc.Bool(x == y)
	case *ChanObj:
		y, _ := b.(*ChanObj)
		return p.tc.Bool(x == y)
	case *FuncV:
		y, _ := b.(*FuncV)
		return p.tc.Bool(x == nil && y == nil)
	case IfaceV:
		y, ok := b.(IfaceV)
		if !ok {
			p.internal(fmt.Sprintf("eq iface vs %T", b))
		}
		if x.t == nil || y.t == nil {
			return p.tc.Bool(x.t == nil && y.t == nil)
		}
		if !types.Identical(x.t, y.t) {
			return p.tc.Bool(false)
		}
		return p.eqValue(x.v, y.v)
	case StructV:
		y := b.(StructV)
		res := p.tc.Bool(true)
		for i := range x.f {
			res = p.tc.And(res, p.eqValue(x.f[i], y.f[i]))
		}
		return res
	case ArrayV:
		y := b.(ArrayV)
		res := p.tc.Bool(true)
		for i := range x.e {
			res = p.tc.And(res, p.eqValue(x.e[i], y.e[i]))
		}
		return res
	case *NativeV:
		y, _ := b.(*NativeV)
		return p.tc.Bool(x == y || (x != nil && y != nil && x.id == y.id))
	}
	p.unsupported(fmt.Sprintf("equality on %T", a))
	return nil
}

func (p *Path) convert(v Value, from, to types.Type) Value {
	if w, _, ok := intWidth(to); ok {
		switch x := v.(type) {
		case *Term:
			_, fs, _ := intWidth(from)
			return p.tc.Resize(x, w, fs)
		case FloatV:
			return p.tc.Const(w, uint64(int64(x)))
		}
	}
	if isFloat(to) {
		switch x := v.(type) {
		case FloatV:
			return x
		case *Term:
			_, fs, _ := intWidth(from)
			if x.IsConst() {
				if fs {
					return FloatV(float64(x.SVal()))
				}
				return FloatV(float64(x.val))
			}
			// opaque: floats only feed statistics
			return FloatV(0)
		}
	}
	if isString(to) {
		switch x := v.(type) {
		case StrV:
			return x
		case SliceV: // []byte / []rune -> string
			es := p.sliceElems(x)
			et := from.Underlying().(*types.Slice).Elem()
			if w, _, _ := intWidth(et); w == 8 {
				bs := make([]byte, len(es))
				for i, e := range es {
					bs[i] = byte(p.concInt(e, "string(bytes)"))
				}
				return conc(string(bs))
			}
			rs := make([]rune, len(es))
			for i, e := range es {
				rs[i] = rune(p.concInt(e, "string(runes)"))
			}
			return conc(string(rs))
		case *Term:
			return conc(string(rune(p.concInt(x, "string(rune)"))))
		}
	}
	if st, ok := to.Underlying().(*types.Slice); ok {
		if s, ok := v.(StrV); ok {
			str := p.concStr(s, "[]byte(string)")
			if w, _, _ := intWidth(st.Elem()); w == 8 {
				vs := make([]Value, len(str))
				for i := 0; i < len(str); i++ {
					vs[i] = p.tc.Const(8, uint64(str[i]))
				}
				return p.sliceFromValues(st.Elem(), vs)
			}
			rs := []rune(str)
			vs := make([]Value, len(rs))
			for i, r := range rs {
				vs[i] = p.tc.Const(32, uint64(r))
			}
			return p.sliceFromValues(st.Elem(), vs)
		}
	}
	if _, ok := to.Underlying().(*types.Pointer); ok {
		return v
	}
	if b, ok := to.Underlying().(*types.Basic); ok && b.Kind() == types.UnsafePointer {
		return v
	}
	p.unsupported(fmt.Sprintf("conversion %s -> %s", from, to))
	return nil
}

func (p *Path) index(xv, iv Value, xt types.Type) Value {
	switch x := xv.(type) {
	case ArrayV:
		it := iv.(*Term)
		p.obligation(p.tc.Cmp("bvult", it, p.tc.Const(64, uint64(len(x.e)))), "index out of range")
		if it.IsConst() {
			return x.e[it.val]
		}
		return p.loadPath(x, []PathElem{{sym: it, n: len(x.e)}})
	case StrV:
		s := p.concStr(x, "string index")
		i := p.concInt(iv, "string index")
		if i < 0 || i >= int64(len(s)) {
			p.runtimePanic("string index out of range")
		}
		return p.tc.Const(8, uint64(s[i]))
	}
	p.unsupported(fmt.Sprintf("index on %T", xv))
	return nil
}

func (p *Path) indexAddr(xv, iv Value, xt types.Type) Value {
	it := iv.(*Term)
	if it.sort != 64 {
		_, s, _ := intWidth(types.Typ[types.Int])
		it = p.tc.Resize(it, 64, s)
	}
	var base *Ptr
	off, n := 0, 0
	var elem types.Type
	switch x := xv.(type) {
	case SliceV:
		if x.base == nil {
			p.obligation(p.tc.Bool(false), "index out of range [nil slice]")
		}
		base, off, n = x.base, x.off, x.ln
		elem = xt.Underlying().(*types.Slice).Elem()
	case *Ptr:
		if x == nil {
			p.runtimePanic("nil pointer dereference (index)")
		}
		at := xt.Underlying().(*types.Pointer).Elem().Underlying().(*types.Array)
		base, off, n = x, 0, int(at.Len())
		elem = at.Elem()
	default:
		p.unsupported(fmt.Sprintf("indexAddr on %T", xv))
	}
	p.obligation(p.tc.Cmp("bvult", it, p.tc.Const(64, uint64(n))), fmt.Sprintf("index out of range [len %d]", n))
	if it.IsConst() {
		return base.extend(PathElem{idx: off + int(it.val)})
	}
	if scalarElem(elem) && !p.eng.cfg.ForkIndex {
		sym := it
		if off != 0 {
			sym = p.tc.Bin("bvadd", it, p.tc.Const(64, uint64(off)))
		}
		return base.extend(PathElem{sym: sym, n: off + n})
	}
	i := p.concretize(it, "index into non-scalar elements")
	return base.extend(PathElem{idx: off + int(i)})
}

func (p *Path) concKey(k Value) Value {
	switch x := k.(type) {
	case *Term:
		if !x.IsConst() {
			v := p.concretize(x, "map key")
			return p.tc.Const(x.sort, uint64(v))
		}
	case StrV:
		if x.kind != strConc {
			return conc(p.concStr(x, "map key"))
		}
	case IfaceV:
		if x.t != nil {
			return IfaceV{x.t, p.concKey(x.v)}
		}
	case StructV:
		f := make([]Value, len(x.f))
		for i := range f {
			f[i] = p.concKey(x.f[i])
		}
		return StructV{f}
	}
	return k
}

func (p *Path) lookup(xv, kv Value, xt types.Type, commaOk bool) Value {
	if s, ok := xv.(StrV); ok {
		str := p.concStr(s, "string index")
		i := p.concInt(kv, "string index")
		if i < 0 || i >= int64(len(str)) {
			p.runtimePanic("string index out of range")
		}
		return p.tc.Const(8, uint64(str[i]))
	}
	m, _ := xv.(*MapObj)
	mt := xt.Underlying().(*types.Map)
	var v Value
	found := false
	if m != nil {
		k := p.concKey(kv)
		v, found = m.get(p.keyOf(k))
	}
	if !found {
		v = p.zero(mt.Elem())
	}
	if commaOk {
		return TupleV{v, p.tc.Bool(found)}
	}
	return v
}

func (p *Path) sliceOp(fr *Frame, x *ssa.Slice) Value {
	xv := p.get(fr, x.X)
	geti := func(v ssa.Value, def int64) int64 {
		if v == nil {
			return def
		}
		return p.concInt(p.get(fr, v), "slice bound")
	}
	switch s := xv.(type) {
	case StrV:
		str := p.concStr(s, "string slice")
		lo := geti(x.Low, 0)
		hi := geti(x.High, int64(len(str)))
		if lo < 0 || hi < lo || hi > int64(len(str)) {
			p.runtimePanic(fmt.Sprintf("slice bounds out of range [%d:%d] with length %d", lo, hi, len(str)))
		}
		return conc(str[lo:hi])
	case SliceV:
		lo := geti(x.Low, 0)
		hi := geti(x.High, int64(s.ln))
		mx := geti(x.Max, int64(s.cp))
		if lo < 0 || hi < lo || mx < hi || mx > int64(s.cp) {
			p.symbolicSliceBoundsPanic(fmt.Sprintf("slice bounds out of range [%d:%d:%d] with capacity %d", lo, hi, mx, s.cp))
		}
		if s.base == nil {
			return SliceV{}
		}
		return SliceV{base: s.base, off: s.off + int(lo), ln: int(hi - lo), cp: int(mx - lo)}
	case *Ptr:
		if s == nil {
			p.runtimePanic("nil pointer dereference (slice of array pointer)")
		}
		at := x.X.Type().Underlying().(*types.Pointer).Elem().Underlying().(*types.Array)
		n := at.Len()
		lo := geti(x.Low, 0)
		hi := geti(x.High, n)
		mx := geti(x.Max, n)
		if lo < 0 || hi < lo || mx < hi || mx > n {
			p.symbolicSliceBoundsPanic(fmt.Sprintf("slice bounds out of range [%d:%d:%d] with array length %d", lo, hi, mx, n))
		}
		return SliceV{base: s, off: int(lo), ln: int(hi - lo), cp: int(mx - lo)}
	}
	p.unsupported(fmt.Sprintf("slice of %T", xv))
	return nil
}

// A slice-bounds failure on a path whose bounds were concretised by forking is
// a feasible panic of the real code: report it as a violation with a model.
func (p *Path) symbolicSliceBoundsPanic(msg string) {
	if !p.expectPanic {
		_, model := p.sol.CheckModel(p.tc.Bool(true), p.nondets)
		p.addViolation("panic", "panic", msg+p.where(), model)
	}
	p.end("panic-reported", msg+p.where())
}

func (p *Path) typeAssert(v Value, x *ssa.TypeAssert) Value {
	iv, _ := v.(IfaceV)
	ok := false
	var res Value
	if iv.t != nil {
		if it, isI := x.AssertedType.Underlying().(*types.Interface); isI {
			if p.isNativeType(iv.t) {
				ok = p.nativeImplements(iv, it)
			} else {
				ok = types.Implements(iv.t, it)
			}
			res = iv
		} else {
			ok = types.Identical(iv.t, x.AssertedType)
			res = iv.v
		}
	}
	if !ok {
		if x.CommaOk {
			return TupleV{p.zero(x.AssertedType), p.tc.Bool(false)}
		}
		p.runtimePanic("interface conversion: type assertion to " + x.AssertedType.String() + " failed")
	}
	if x.CommaOk {
		return TupleV{res, p.tc.Bool(true)}
	}
	return res
}

func (p *Path) next(it *RangeIter, x *ssa.Next) Value {
	if it.isStr {
		if it.pos >= len(it.str) {
			return TupleV{p.tc.Bool(false), p.tc.Const(64, 0), p.tc.Const(32, 0)}
		}
		var r rune
		var size int
		for i, c := range it.str[it.pos:] {
			if i == 0 {
				r = c
			} else {
				size = i
				break
			}
		}
		if size == 0 {
			size = len(it.str) - it.pos
		}
		k := it.pos
		it.pos += size
		return TupleV{p.tc.Bool(true), p.tc.Const(64, uint64(k)), p.tc.Const(32, uint64(r))}
	}
	tt := x.Type().(*types.Tuple)
	for it.pos < len(it.keys) {
		k := it.keys[it.pos]
		it.pos++
		v, ok := it.m.get(p.keyOf(k))
		if !ok {
			continue // deleted during iteration
		}
		return TupleV{p.tc.Bool(true), k, v}
	}
	var kz, vz Value
	if tt.At(1).Type() != nil {
		if _, isInvalid := tt.At(1).Type().(*types.Basic); !isInvalid || tt.At(1).Type().(*types.Basic).Kind() != types.Invalid {
			kz = p.zero(tt.At(1).Type())
		}
	}
	if b, isB := tt.At(2).Type().(*types.Basic); !isB || b.Kind() != types.Invalid {
		vz = p.zero(tt.At(2).Type())
	}
	return TupleV{p.tc.Bool(false), kz, vz}
}

// permuteKeys chooses a map iteration order.  Default: insertion order; with
// cfg.MapOrder > 0 and up to MapOrder keys, all rotations are explored.
func (p *Path) permuteKeys(keys []Value) []Value {
	n := len(keys)
	if n <= 1 || p.eng.cfg.MapOrder == 0 || p.cur == nil || p.cur.id < 0 {
		return keys
	}
	switch p.eng.cfg.MapOrder {
	case 1: // rotations
		r := p.choose(n, "map order rotation")
		out := make([]Value, 0, n)
		out = append(out, keys[r:]...)
		out = append(out, keys[:r]...)
		return out
	default: // all permutations up to MapOrder keys, rotations above
		if n > p.eng.cfg.MapOrder {
			r := p.choose(n, "map order rotation")
			out := make([]Value, 0, n)
			out = append(out, keys[r:]...)
			out = append(out, keys[:r]...)
			return out
		}
		rest := append([]Value{}, keys...)
		var out []Value
		for len(rest) > 0 {
			k := p.choose(len(rest), "map order")
			out = append(out, rest[k])
			rest = append(rest[:k], rest[k+1:]...)
		}
		return out
	}
}
