package main

import (
	"bufio"
	"fmt"
	"io"
	"os"
	"os/exec"
	"strings"
	"time"
)

// Solver wraps one long-lived `z3 -in` process.
type Solver struct {
	cmd      *exec.Cmd
	in       io.WriteCloser
	out      *bufio.Reader
	buf      strings.Builder
	Queries  int
	Sat      int
	Unsat    int
	Unknown  int
	Errors   int
	Dur      time.Duration
	ModelDur time.Duration
	Models   int
	LastErr  string
	depth    int
	bin      string
	args     []string
	paths    int
	log      io.Writer
}

func NewSolver(bin string, args ...string) (*Solver, error) {
	if len(args) == 0 {
		args = []string{"-in"}
	}
	cmd := exec.Command(bin, args...)
	in, err := cmd.StdinPipe()
	if err != nil {
		return nil, err
	}
	out, err := cmd.StdoutPipe()
	if err != nil {
		return nil, err
	}
	cmd.Stderr = cmd.Stdout
	if err := cmd.Start(); err != nil {
		return nil, err
	}
	s := &Solver{cmd: cmd, in: in, out: bufio.NewReaderSize(out, 1<<16), bin: bin, args: args}
	if lf := os.Getenv("GOSYMX_SOLVER_LOG"); lf != "" {
		if f, err := os.OpenFile(lf, os.O_CREATE|os.O_WRONLY|os.O_TRUNC, 0644); err == nil {
			s.log = f
		}
	}
	s.send("(set-option :rlimit 40000000)\n")
	return s, nil
}

func (s *Solver) Close() {
	if s == nil || s.cmd == nil {
		return
	}
	s.flush()
	s.in.Close()
	s.cmd.Process.Kill()
	s.cmd.Wait()
}

func (s *Solver) send(txt string) { s.buf.WriteString(txt) }

func (s *Solver) flush() {
	if s.buf.Len() == 0 {
		return
	}
	if s.log != nil {
		io.WriteString(s.log, s.buf.String())
	}
	io.WriteString(s.in, s.buf.String())
	s.buf.Reset()
}

func (s *Solver) Push() { s.send("(push 1)\n"); s.depth++ }
func (s *Solver) Pop()  { s.send("(pop 1)\n"); s.depth-- }

// BeginPath / EndPath bracket one path.  The solver is reset rather than popped:
// z3 keeps per-process symbol tables that make get-value slower and slower when
// thousands of scopes with fresh definitions are pushed and popped.
func (s *Solver) BeginPath() {}
func (s *Solver) EndPath() {
	s.paths++
	if s.paths%4000 == 0 && s.recycle() {
		return
	}
	s.send("(reset)\n(set-option :rlimit 40000000)\n")
}

// recycle replaces the solver process by a fresh one: a z3 that has answered hundreds of
// thousands of queries keeps growing (2+ GB each after 700 000 paths) although every path
// ends with (reset).
func (s *Solver) recycle() bool {
	s.flush()
	cmd := exec.Command(s.bin, s.args...)
	in, err := cmd.StdinPipe()
	if err != nil {
		return false
	}
	out, err := cmd.StdoutPipe()
	if err != nil {
		return false
	}
	cmd.Stderr = cmd.Stdout
	if err := cmd.Start(); err != nil {
		return false
	}
	s.in.Close()
	s.cmd.Process.Kill()
	s.cmd.Wait()
	s.cmd, s.in, s.out = cmd, in, bufio.NewReaderSize(out, 1<<16)
	s.send("(set-option :rlimit 40000000)\n")
	return true
}

// define makes sure t and all its sub-terms are declared/defined.
func (s *Solver) define(t *Term) {
	if t.emit || t.op == "const" {
		return
	}
	// iterative post-order to avoid deep recursion
	type fr struct {
		t *Term
		i int
	}
	st := []fr{{t, 0}}
	for len(st) > 0 {
		f := &st[len(st)-1]
		if f.t.emit || f.t.op == "const" {
			st = st[:len(st)-1]
			continue
		}
		if f.i < len(f.t.args) {
			a := f.t.args[f.i]
			f.i++
			if !a.emit && a.op != "const" {
				st = append(st, fr{a, 0})
			}
			continue
		}
		x := f.t
		x.emit = true
		if x.op == "var" {
			fmt.Fprintf(&s.buf, "(declare-const %s %s)\n", x.name, sortStr(x.sort))
		} else {
			fmt.Fprintf(&s.buf, "(define-fun %s () %s %s)\n", x.ref(), sortStr(x.sort), x.body())
		}
		st = st[:len(st)-1]
	}
}

func (s *Solver) Assert(t *Term) {
	s.define(t)
	fmt.Fprintf(&s.buf, "(assert %s)\n", t.ref())
}

func (s *Solver) readLine() (string, error) {
	l, err := s.out.ReadString('\n')
	return strings.TrimSpace(l), err
}

// Check asks whether the asserted formulas together with t are satisfiable.
// Returns "sat", "unsat", "unknown" or "error".
func (s *Solver) Check(t *Term) string {
	s.define(t)
	if t.op == "const" {
		fmt.Fprintf(&s.buf, "(push 1)\n(assert %s)\n(check-sat)\n(pop 1)\n", t.ref())
	} else {
		fmt.Fprintf(&s.buf, "(check-sat-assuming (%s))\n", t.ref())
	}
	return s.answer()
}

func (s *Solver) answer() string {
	t0 := time.Now()
	s.flush()
	s.Queries++
	for {
		l, err := s.readLine()
		if err != nil {
			s.Errors++
			s.LastErr = "solver died: " + err.Error()
			return "error"
		}
		if l == "" {
			continue
		}
		s.Dur += time.Since(t0)
		switch l {
		case "sat":
			s.Sat++
			return "sat"
		case "unsat":
			s.Unsat++
			return "unsat"
		case "unknown", "timeout":
			s.Unknown++
			return "unknown"
		}
		s.Errors++
		s.LastErr = l
		return "error"
	}
}

// Model returns values for the given variables after a "sat" answer obtained
// with CheckKeep.
func (s *Solver) values(vars []*Term) (map[string]uint64, error) {
	res := map[string]uint64{}
	if len(vars) == 0 {
		return res, nil
	}
	var sb strings.Builder
	sb.WriteString("(get-value (")
	for _, v := range vars {
		sb.WriteString(v.name)
		sb.WriteByte(' ')
	}
	sb.WriteString("))\n")
	s.send(sb.String())
	tv0 := time.Now()
	defer func() { s.ModelDur += time.Since(tv0); s.Models++ }()
	s.flush()
	// read a balanced s-expression
	depth := 0
	var txt strings.Builder
	started := false
	inBar := false
	for {
		r, _, err := s.out.ReadRune()
		if err != nil {
			return nil, err
		}
		txt.WriteRune(r)
		if r == '|' {
			inBar = !inBar
		}
		if inBar {
			continue
		}
		if r == '(' {
			depth++
			started = true
		} else if r == ')' {
			depth--
		}
		if started && depth == 0 {
			break
		}
	}
	str := txt.String()
	if strings.Contains(str, "(error") {
		return nil, fmt.Errorf("get-value: %s", str)
	}
	// parse pairs (name value)
	toks := tokenize(str)
	// expected: ( ( name val ) ( name val ) ... ) where val is #x.. #b.. (_ bvN w) true false
	i := 0
	if i < len(toks) && toks[i] == "(" {
		i++
	}
	for i < len(toks) {
		if toks[i] == ")" {
			break
		}
		if toks[i] != "(" {
			return nil, fmt.Errorf("get-value parse: %s", str)
		}
		i++
		name := toks[i]
		i++
		var v uint64
		switch {
		case toks[i] == "(":
			// (_ bvN w)
			if toks[i+1] == "_" && strings.HasPrefix(toks[i+2], "bv") {
				fmt.Sscanf(toks[i+2][2:], "%d", &v)
				i += 5
			} else {
				return nil, fmt.Errorf("get-value parse value: %s", str)
			}
		case strings.HasPrefix(toks[i], "#x"):
			fmt.Sscanf(toks[i][2:], "%x", &v)
			i++
		case strings.HasPrefix(toks[i], "#b"):
			fmt.Sscanf(toks[i][2:], "%b", &v)
			i++
		case toks[i] == "true":
			v = 1
			i++
		case toks[i] == "false":
			v = 0
			i++
		default:
			return nil, fmt.Errorf("get-value parse value %q: %s", toks[i], str)
		}
		if toks[i] != ")" {
			return nil, fmt.Errorf("get-value parse close: %s", str)
		}
		i++
		res[name] = v
	}
	return res, nil
}

func tokenize(s string) []string {
	var toks []string
	i := 0
	for i < len(s) {
		c := s[i]
		switch {
		case c == '(' || c == ')':
			toks = append(toks, string(c))
			i++
		case c == ' ' || c == '\n' || c == '\t' || c == '\r':
			i++
		case c == '|':
			j := i + 1
			for j < len(s) && s[j] != '|' {
				j++
			}
			toks = append(toks, s[i:j+1])
			i = j + 1
		default:
			j := i
			for j < len(s) && !strings.ContainsRune("() \n\t\r", rune(s[j])) {
				j++
			}
			toks = append(toks, s[i:j])
			i = j
		}
	}
	return toks
}

// CheckModel: satisfiability of (asserted ∧ t); on sat, returns the values of vars.
func (s *Solver) CheckModel(t *Term, vars []*Term) (string, map[string]uint64) {
	s.define(t)
	for _, v := range vars {
		s.define(v)
	}
	fmt.Fprintf(&s.buf, "(push 1)\n(assert %s)\n(check-sat)\n", t.ref())
	r := s.answer()
	var m map[string]uint64
	if r == "sat" {
		var err error
		m, err = s.values(vars)
		if err != nil {
			s.Errors++
			s.LastErr = err.Error()
			r = "error"
		}
	}
	s.send("(pop 1)\n")
	return r, m
}

// runStandalone runs a one-shot script on an external solver binary and returns
// its first answer line.
func runStandalone(bin string, args []string, script string, timeout time.Duration) string {
	cmd := exec.Command(bin, args...)
	cmd.Stdin = strings.NewReader(script)
	done := make(chan struct{})
	var out []byte
	var err error
	go func() { out, err = cmd.CombinedOutput(); close(done) }()
	select {
	case <-done:
	case <-time.After(timeout):
		if cmd.Process != nil {
			cmd.Process.Kill()
		}
		<-done
		return "timeout"
	}
	_ = err
	txt := string(out)
	if strings.Contains(txt, "(error") {
		return "error: " + strings.TrimSpace(txt)
	}
	for _, l := range strings.Split(txt, "\n") {
		l = strings.TrimSpace(l)
		if l == "sat" || l == "unsat" || l == "unknown" {
			return l
		}
	}
	return "error: " + strings.TrimSpace(txt)
}
