package main

import (
	"fmt"
	"golang.org/x/tools/go/packages"
	"golang.org/x/tools/go/ssa"
	"golang.org/x/tools/go/ssa/ssautil"
)

func main() {
	_ = packages.Load
	_ = ssa.BuilderMode(0)
	_ = ssautil.AllPackages
	fmt.Println("ok")
}
