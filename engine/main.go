package main

import (
	"encoding/json"
	"flag"
	"fmt"
	"os"
	"runtime"
	"runtime/debug"
	"runtime/pprof"
	"strconv"
	"strings"
)

type multiFlag []string

func (m *multiFlag) String() string     { return strings.Join(*m, ",") }
func (m *multiFlag) Set(s string) error { *m = append(*m, s); return nil }

func main() {
	debug.SetGCPercent(1600)
	// the collector is lazy for speed; a soft limit keeps long explorations (hundreds of
	// thousands of paths) from growing without bound
	memGB := int64(8)
	if v, err := strconv.Atoi(os.Getenv("GOSYMX_MEMLIMIT_GB")); err == nil && v > 0 {
		memGB = int64(v)
	}
	debug.SetMemoryLimit(memGB << 30)
	if len(os.Args) < 2 {
		fmt.Fprintln(os.Stderr, "usage: gosymx run|check|replay|selftest ...")
		os.Exit(2)
	}
	switch os.Args[1] {
	case "run":
		os.Exit(cmdRun(os.Args[2:]))
	case "check":
		os.Exit(cmdCheck(os.Args[2:]))
	case "replay":
		os.Exit(cmdReplay(os.Args[2:]))
	case "selftest":
		os.Exit(cmdSelftest(os.Args[2:]))
	default:
		fmt.Fprintln(os.Stderr, "unknown command", os.Args[1])
		os.Exit(2)
	}
}

func cmdRun(args []string) int {
	fs := flag.NewFlagSet("run", flag.ExitOnError)
	repo := fs.String("repo", "/repo", "repository root")
	hdir := fs.String("hdir", "/verif/harness", "harness root")
	sets := fs.String("sets", "", "comma separated harness sets (directories under hdir)")
	pkg := fs.String("pkg", "", "import path of the package holding the harness")
	harness := fs.String("harness", "", "comma separated harness function names")
	out := fs.String("out", "", "write JSON results here")
	workers := fs.Int("workers", 16, "parallel workers")
	verbose := fs.Bool("v", false, "verbose")
	maxSteps := fs.Int("maxsteps", 0, "instruction budget per path")
	maxLoop := fs.Int("maxloop", 0, "loop bound")
	mapOrder := fs.Int("maporder", 0, "map iteration order exploration (0 insertion, 1 rotations, n permutations up to n keys)")
	cross := fs.Bool("crosscheck", false, "re-decide assertion queries with z3-new and cvc5")
	redirectsFile := fs.String("redirects", "", "redirect table (JSON: callee -> harness function)")
	extraInterp := fs.String("interp", "", "comma separated extra package paths interpreted from source")
	cpuprof := fs.String("cpuprofile", "", "write CPU profile")
	var params multiFlag
	fs.Var(&params, "param", "K=V harness parameter (repeatable)")
	fs.Parse(args)
	if *cpuprof != "" {
		f, _ := os.Create(*cpuprof)
		pprof.StartCPUProfile(f)
		defer pprof.StopCPUProfile()
		runtime.SetBlockProfileRate(10000)
		defer func() {
			bf, _ := os.Create(*cpuprof + ".block")
			pprof.Lookup("block").WriteTo(bf, 0)
			bf.Close()
		}()
	}
	cfg := defaultConfig()
	cfg.Workers = *workers
	cfg.Verbose = *verbose
	cfg.MapOrder = *mapOrder
	cfg.CrossCheck = *cross
	if *maxSteps > 0 {
		cfg.MaxSteps = *maxSteps
	}
	if *maxLoop > 0 {
		cfg.MaxLoop = *maxLoop
	}
	for _, kv := range params {
		i := strings.Index(kv, "=")
		if i < 0 {
			continue
		}
		v, _ := strconv.Atoi(kv[i+1:])
		cfg.Params[kv[:i]] = v
	}
	setList := strings.Split(*sets, ",")
	ov, _, err := buildOverlay(*repo, *hdir, setList, "sym")
	if err != nil {
		fmt.Fprintln(os.Stderr, "overlay:", err)
		return 2
	}
	eng, err := loadEngine(LoadSpec{RepoDir: *repo, Patterns: []string{*pkg}, Overlay: ov}, cfg)
	if err != nil {
		fmt.Fprintln(os.Stderr, "load:", err)
		return 2
	}
	for _, x := range strings.Split(*extraInterp, ",") {
		if x != "" {
			eng.extraInterp[x] = true
		}
	}
	if *redirectsFile != "" {
		if err := eng.loadRedirectFiles("", *redirectsFile, *pkg); err != nil {
			fmt.Fprintln(os.Stderr, "redirects:", err)
			return 2
		}
	}
	rc := 0
	var results []*HarnessResult
	for _, h := range strings.Split(*harness, ",") {
		res, err := eng.RunHarness(*pkg, h)
		if err != nil {
			fmt.Fprintln(os.Stderr, err)
			return 2
		}
		results = append(results, res)
		fmt.Printf("%s: paths=%d ends=%v asserts=%d obligations=%d queries=%d solver_ms=%d wall=%.1fs violations=%d inconclusive=%d pathms=%d modelms=%d models=%d\n",
			h, res.Paths, res.Ends, res.Asserts, res.Obligations, res.Queries, res.SolverMs, res.WallS, len(res.Violations), len(res.Inconclusive), res.PathMs, res.ModelMs, res.Models)
		for _, v := range res.Violations {
			fmt.Printf("  VIOL %s %s: %s %v\n", v.Kind, v.ID, v.Msg, v.Assignment)
			if rc == 0 {
				rc = 1
			}
		}
		for _, m := range res.Inconclusive {
			fmt.Printf("  INCONCLUSIVE %s\n", m)
			rc = 2
		}
	}
	if *out != "" {
		data, _ := json.MarshalIndent(results, "", " ")
		os.WriteFile(*out, data, 0644)
	}
	return rc
}

// loadRedirects reads {"callee": "harnessFunc"}; harness functions live in pkgPath
// unless given as "import/path.Func".
func (e *Engine) loadRedirects(file, pkgPath string) error {
	data, err := os.ReadFile(file)
	if err != nil {
		return err
	}
	var tbl map[string]string
	if err := json.Unmarshal(data, &tbl); err != nil {
		return err
	}
	return e.setRedirects(tbl, pkgPath)
}

// readRedirectTables merges the comma separated redirect files (relative to hdir when given).
func readRedirectTables(hdir, files string) (map[string]string, error) {
	tbl := map[string]string{}
	for _, f := range strings.Split(files, ",") {
		if f == "" {
			continue
		}
		if hdir != "" {
			f = hdir + "/" + f
		}
		data, err := os.ReadFile(f)
		if err != nil {
			return nil, err
		}
		var t map[string]string
		if err := json.Unmarshal(data, &t); err != nil {
			return nil, err
		}
		for k, v := range t {
			tbl[k] = v
		}
	}
	return tbl, nil
}

func (e *Engine) loadRedirectFiles(hdir, files, pkgPath string) error {
	tbl, err := readRedirectTables(hdir, files)
	if err != nil {
		return err
	}
	return e.setRedirects(tbl, pkgPath)
}

func (e *Engine) setRedirects(tbl map[string]string, pkgPath string) error {
	idx := e.buildFuncIndexCached()
	for callee, target := range tbl {
		if strings.HasPrefix(callee, "#") {
			continue
		}
		tp, tn := pkgPath, target
		if i := strings.LastIndex(target, "."); i >= 0 {
			tp, tn = target[:i], target[i+1:]
		}
		tf := e.findFunc(tp, tn)
		if _, ok := idx[callee]; !ok && tf == nil {
			continue // neither the callee nor its stub is part of this program
		}
		if tf == nil {
			return fmt.Errorf("redirect target %s.%s not found", tp, tn)
		}
		e.redirects[callee] = tf
	}
	return nil
}
