package main

import (
	"fmt"
	"go/types"
	"strconv"
	"strings"

	"golang.org/x/tools/go/ssa"
)

// ---------------------------------------------------------------------------
// harness intrinsics (zz*)

var intrinsicNames = map[string]bool{
	"zzNondetInt64": true, "zzNondetInt": true, "zzNondetUint16": true, "zzNondetUint32": true, "zzNondetUint64": true,
	"zzNondetByte": true, "zzNondetBool": true, "zzChoice": true, "zzPick": true,
	"zzAssume": true, "zzAssert": true, "zzReach": true, "zzSettle": true, "zzYield": true, "zzExpectPanic": true,
	"zzAnd": true, "zzOr": true, "zzImplies": true, "zzNot": true,
	"zzIteInt": true, "zzIteInt64": true, "zzIteByte": true, "zzIteBool": true, "zzIteUint16": true, "zzIteStr": true,
	"zzParam": true, "zzSymbolic": true, "zzDecStr": true, "zzWriteLocked": true, "zzLockDepth": true,
	"zzLog": true, "zzFail": true, "zzConcretize": true, "zzConcStr": true, "zzGoroutines": true,
	"zzIsConst": true, "zzStrEq": true, "zzDigest": true, "zzSettleMs": true, "zzTry": true, "zzTrapFatal": true,
}

func (p *Path) isIntrinsic(fn *ssa.Function) bool { return p.eng.meta(fn).intrinsic }

func (p *Path) nondet(tag string, sort int) *Term {
	k := p.nondetCount[tag]
	p.nondetCount[tag] = k + 1
	name := fmt.Sprintf("|%s#%d|", tag, k)
	v := p.tc.Var(name, sort)
	p.nondets = append(p.nondets, v)
	return v
}

func (p *Path) tagArg(v Value) string {
	s := v.(StrV)
	if s.kind != strConc {
		p.internal("nondet tag must be a concrete string")
	}
	return s.s
}

func (p *Path) intrinsic(g *G, fr *Frame, fn *ssa.Function, args []Value) (Value, int) {
	switch fn.Name() {
	case "zzNondetInt64", "zzNondetInt", "zzNondetUint64":
		return p.nondet(p.tagArg(args[0]), 64), stNext
	case "zzNondetUint32":
		return p.nondet(p.tagArg(args[0]), 32), stNext
	case "zzNondetUint16":
		return p.nondet(p.tagArg(args[0]), 16), stNext
	case "zzNondetByte":
		return p.nondet(p.tagArg(args[0]), 8), stNext
	case "zzNondetBool":
		return p.nondet(p.tagArg(args[0]), 0), stNext
	case "zzChoice":
		n := p.concInt(args[1], "zzChoice bound")
		v := p.nondet(p.tagArg(args[0]), 64)
		p.assume(p.tc.Cmp("bvult", v, p.tc.Const(64, uint64(n))))
		return v, stNext
	case "zzPick":
		pool := p.sliceElems(args[1].(SliceV))
		strs := make([]string, len(pool))
		for i, e := range pool {
			strs[i] = p.concStr(e, "zzPick pool")
		}
		v := p.nondet(p.tagArg(args[0]), 32)
		p.assume(p.tc.Cmp("bvult", v, p.tc.Const(32, uint64(len(strs)))))
		return StrV{kind: strEnum, pool: strs, idx: v}, stNext
	case "zzAssume":
		c := args[0].(*Term)
		if c.IsTrue() {
			return nil, stNext
		}
		p.flushAsserts()
		if c.IsFalse() {
			p.end("infeasible", "assume(false)")
		}
		r := p.sol.Check(c)
		if r == "unsat" {
			p.end("infeasible", "assumption infeasible")
		}
		if r != "sat" {
			p.inconclusive = append(p.inconclusive, "assume: solver "+r+" "+p.sol.LastErr)
		}
		p.assume(c)
		return nil, stNext
	case "zzAssert":
		c := args[0].(*Term)
		id := p.concStr(args[1], "assert id")
		p.doAssert(c, id)
		return nil, stNext
	case "zzFail":
		id := p.concStr(args[0], "fail id")
		p.doAssert(p.tc.Bool(false), id)
		return nil, stNext
	case "zzReach":
		p.reached[p.concStr(args[0], "reach tag")] = true
		return nil, stNext
	case "zzYield":
		// a scheduling point inside a modelled blocking call: when the main goroutine
		// reaches it the other goroutines run until they block; elsewhere it is a no-op
		if g.id != 0 || len(p.gs) < 2 {
			return nil, stNext
		}
		if g.settleDone {
			g.settleDone = false
			g.settleReq = false
			return nil, stNext
		}
		g.settleReq = true
		g.wait = "yield"
		return nil, stBlock
	case "zzSettle", "zzSettleMs":
		if g.id != 0 {
			p.internal("zzSettle outside the main goroutine")
		}
		if g.settleDone {
			g.settleDone = false
			g.settleReq = false
			return nil, stNext
		}
		g.settleReq = true
		g.wait = "settle"
		return nil, stBlock
	case "zzExpectPanic":
		p.expectPanic = true
		return nil, stNext
	case "zzAnd":
		return p.tc.And(args[0].(*Term), args[1].(*Term)), stNext
	case "zzOr":
		return p.tc.Or(args[0].(*Term), args[1].(*Term)), stNext
	case "zzImplies":
		return p.tc.Implies(args[0].(*Term), args[1].(*Term)), stNext
	case "zzNot":
		return p.tc.Not(args[0].(*Term)), stNext
	case "zzIteInt", "zzIteInt64", "zzIteByte", "zzIteBool", "zzIteUint16":
		return p.tc.Ite(args[0].(*Term), args[1].(*Term), args[2].(*Term)), stNext
	case "zzIteStr":
		return p.iteValue(args[0].(*Term), args[1], args[2]), stNext
	case "zzStrEq":
		return p.strEq(args[0].(StrV), args[1].(StrV)), stNext
	case "zzParam":
		name := p.concStr(args[0], "param name")
		if v, ok := p.eng.cfg.Params[name]; ok {
			return p.tc.Const(64, uint64(int64(v))), stNext
		}
		return args[1], stNext
	case "zzSymbolic":
		return p.tc.Bool(true), stNext
	case "zzDecStr":
		t := args[0].(*Term)
		if t.IsConst() {
			return conc(strconv.FormatInt(t.SVal(), 10)), stNext
		}
		return StrV{kind: strDec, dec: t}, stNext
	case "zzWriteLocked":
		ptr, _ := args[0].(*Ptr)
		if ptr == nil {
			return p.tc.Bool(false), stNext
		}
		ls := p.locks[ptr.key()]
		return p.tc.Bool(ls != nil && ls.writer), stNext
	case "zzLockDepth":
		ptr, _ := args[0].(*Ptr)
		if ptr == nil {
			return p.tc.Const(64, 0), stNext
		}
		ls := p.locks[ptr.key()]
		d := 0
		if ls != nil {
			if ls.writer {
				d = 1
			}
			d += ls.readers
		}
		return p.tc.Const(64, uint64(d)), stNext
	case "zzLog":
		if p.eng.cfg.Verbose {
			var parts []string
			for _, a := range args {
				parts = append(parts, p.describe(a))
			}
			fmt.Println("zzLog:", strings.Join(parts, " "))
		}
		return nil, stNext
	case "zzConcretize":
		t := args[0].(*Term)
		v := p.concretize(t, "zzConcretize")
		return p.tc.Const(t.sort, uint64(v)), stNext
	case "zzConcStr":
		return conc(p.concStr(args[0], "zzConcStr")), stNext
	case "zzGoroutines":
		n := 0
		for _, og := range p.gs {
			if !og.done {
				n++
			}
		}
		return p.tc.Const(64, uint64(n)), stNext
	case "zzDigest":
		t, ok := args[1].(*Term)
		if !ok || !t.IsConst() {
			p.internal("zzDigest of a non-constant value")
		}
		p.reached["digest:"+p.concStr(args[0], "digest name")+"="+strconv.FormatUint(t.val, 10)] = true
		return nil, stNext
	case "zzTrapFatal":
		return nil, stNext
	case "zzIsConst":
		t, ok := args[0].(*Term)
		return p.tc.Bool(ok && t.IsConst()), stNext
	}
	p.internal("unknown intrinsic " + fn.Name())
	return nil, stNext
}

func (p *Path) doAssert(c *Term, id string) {
	p.asserts++
	if c.IsTrue() {
		return
	}
	if c.IsFalse() {
		p.flushAsserts()
		p.checkAssertNow(c, id)
		return
	}
	// Deferred: assertions are decided in batches (one query for the disjunction of
	// their negations).  Sound because every extension of the current path is explored
	// and each carries the pending assertions; the batch is flushed before anything
	// other than a forking decision strengthens the path condition.
	p.pendingAsserts = append(p.pendingAsserts, pendingAssert{c, id})
	if len(p.pendingAsserts) >= 64 {
		p.flushAsserts()
	}
}

type pendingAssert struct {
	c  *Term
	id string
}

func (p *Path) flushAsserts() {
	if len(p.pendingAsserts) == 0 {
		return
	}
	pend := p.pendingAsserts
	p.pendingAsserts = nil
	anyFail := p.tc.Bool(false)
	for _, a := range pend {
		anyFail = p.tc.Or(anyFail, p.tc.Not(a.c))
	}
	if p.eng.cfg.CrossCheck {
		as := append(append([]*Term{}, p.pcs...), anyFail)
		p.assertQueries = append(p.assertQueries, standaloneScript(as, ""))
	}
	r := p.sol.Check(anyFail)
	if r == "unsat" {
		return
	}
	// some assertion can fail (or the solver gave up): decide them one by one
	for _, a := range pend {
		p.checkAssertNow(a.c, a.id)
	}
}

func (p *Path) checkAssertNow(c *Term, id string) {
	neg := p.tc.Not(c)
	r, model := p.sol.CheckModel(neg, p.nondets)
	switch r {
	case "sat":
		p.addViolation("assert", id, "assertion "+id+" can fail", model)
		// continue under the assertion, if possible
		if p.sol.Check(c) == "unsat" {
			p.end("assert-failed", id)
		}
		p.assume(c)
	case "unsat":
	default:
		p.inconclusive = append(p.inconclusive, "assert "+id+": solver "+r+" "+p.sol.LastErr)
	}
}

// ---------------------------------------------------------------------------
// channels

func (p *Path) chanSend(g *G, ch *ChanObj, v Value) bool {
	if ch == nil {
		g.wait = "send on nil channel"
		return false
	}
	if ch.closed {
		p.runtimePanic("send on closed channel")
	}
	if g.sending && g.waitSend == ch {
		if g.sendTaken {
			g.sending, g.sendTaken, g.waitSend, g.sendVal = false, false, nil, nil
			return true
		}
		// buffered space may have appeared meanwhile
		if len(ch.q) < ch.cap {
			ch.q = append(ch.q, v)
			g.sending, g.waitSend, g.sendVal = false, nil, nil
			return true
		}
		return false
	}
	if len(ch.q) < ch.cap {
		ch.q = append(ch.q, v)
		return true
	}
	// hand over to a waiting receiver, if any
	if ch.cap == 0 {
		waiting := 0
		for _, og := range p.gs {
			if og != g && !og.done && og.waitRecv == ch {
				waiting++
			}
		}
		if len(ch.q) < waiting {
			ch.q = append(ch.q, v)
			return true
		}
	}
	g.sending, g.waitSend, g.sendVal, g.sendTaken = true, ch, v, false
	g.wait = "chan send"
	return false
}

func (p *Path) chanRecvReady(g *G, ch *ChanObj) bool {
	if ch == nil {
		return false
	}
	if len(ch.q) > 0 || ch.closed {
		return true
	}
	for _, og := range p.gs {
		if og != g && !og.done && og.sending && og.waitSend == ch && !og.sendTaken {
			return true
		}
	}
	return false
}

func (p *Path) chanRecv(g *G, ch *ChanObj) (Value, bool, bool) {
	if ch == nil {
		g.wait = "receive on nil channel"
		return nil, false, false
	}
	if len(ch.q) > 0 {
		v := ch.q[0]
		ch.q = ch.q[1:]
		g.waitRecv = nil
		return v, true, true
	}
	for _, og := range p.gs {
		if og != g && !og.done && og.sending && og.waitSend == ch && !og.sendTaken {
			og.sendTaken = true
			g.waitRecv = nil
			return og.sendVal, true, true
		}
	}
	if ch.closed {
		g.waitRecv = nil
		return p.zero(ch.etyp), false, true
	}
	g.waitRecv = ch
	g.wait = "chan receive"
	return nil, false, false
}

func (p *Path) chanSendReady(g *G, ch *ChanObj) bool {
	if ch == nil {
		return false
	}
	if ch.closed {
		return true // will panic
	}
	if len(ch.q) < ch.cap {
		return true
	}
	if ch.cap == 0 {
		waiting := 0
		for _, og := range p.gs {
			if og != g && !og.done && og.waitRecv == ch {
				waiting++
			}
		}
		return len(ch.q) < waiting
	}
	return false
}

func (p *Path) doSelect(g *G, fr *Frame, x *ssa.Select) int {
	var ready []int
	chans := make([]*ChanObj, len(x.States))
	for i, st := range x.States {
		ch, _ := p.get(fr, st.Chan).(*ChanObj)
		chans[i] = ch
		if st.Dir == types.SendOnly {
			if p.chanSendReady(g, ch) {
				ready = append(ready, i)
			}
		} else if p.chanRecvReady(g, ch) {
			ready = append(ready, i)
		}
	}
	tt := x.Type().(*types.Tuple)
	result := make(TupleV, tt.Len())
	for i := 2; i < tt.Len(); i++ {
		result[i] = p.zero(tt.At(i).Type())
	}
	result[1] = p.tc.Bool(false)
	if len(ready) == 0 {
		if !x.Blocking {
			result[0] = p.tc.Const(64, ^uint64(0))
			p.set(fr, x, result)
			return stNext
		}
		g.wait = "select"
		// register as a waiting receiver on all receive channels so that unbuffered senders can hand over
		return stBlock
	}
	k := ready[p.choose(len(ready), "select")]
	st := x.States[k]
	result[0] = p.tc.Const(64, uint64(k))
	if st.Dir == types.SendOnly {
		if !p.chanSend(g, chans[k], p.get(fr, st.Send)) {
			p.internal("select: ready send blocked")
		}
	} else {
		v, ok, rdy := p.chanRecv(g, chans[k])
		if !rdy {
			p.internal("select: ready receive blocked")
		}
		result[1] = p.tc.Bool(ok)
		// position of this receive among receive states
		ri := 2
		for i := 0; i < k; i++ {
			if x.States[i].Dir != types.SendOnly {
				ri++
			}
		}
		result[ri] = v
	}
	p.set(fr, x, result)
	return stNext
}

// ---------------------------------------------------------------------------
// Go builtins

func (p *Path) callBuiltin(g *G, fr *Frame, name string, args []Value, fv *FuncV) (Value, int) {
	switch name {
	case "len":
		switch x := args[0].(type) {
		case StrV:
			if x.kind == strConc {
				return p.tc.Const(64, uint64(len(x.s))), stNext
			}
			if x.kind == strEnum {
				// ite over pool lengths
				var r *Term
				for i := len(x.pool) - 1; i >= 0; i-- {
					k := p.tc.Const(64, uint64(len(x.pool[i])))
					if r == nil {
						r = k
					} else {
						r = p.tc.Ite(p.tc.Eq(x.idx, p.tc.Const(32, uint64(i))), k, r)
					}
				}
				return r, stNext
			}
			return p.tc.Const(64, uint64(len(p.concStr(x, "len(string)")))), stNext
		case SliceV:
			return p.tc.Const(64, uint64(x.ln)), stNext
		case *MapObj:
			if x == nil {
				return p.tc.Const(64, 0), stNext
			}
			return p.tc.Const(64, uint64(x.n)), stNext
		case *ChanObj:
			if x == nil {
				return p.tc.Const(64, 0), stNext
			}
			return p.tc.Const(64, uint64(len(x.q))), stNext
		case ArrayV:
			return p.tc.Const(64, uint64(len(x.e))), stNext
		case *Ptr:
			if x != nil {
				if a, ok := p.load(x).(ArrayV); ok {
					return p.tc.Const(64, uint64(len(a.e))), stNext
				}
			}
		}
	case "cap":
		switch x := args[0].(type) {
		case SliceV:
			return p.tc.Const(64, uint64(x.cp)), stNext
		case *ChanObj:
			if x == nil {
				return p.tc.Const(64, 0), stNext
			}
			return p.tc.Const(64, uint64(x.cap)), stNext
		case ArrayV:
			return p.tc.Const(64, uint64(len(x.e))), stNext
		}
	case "append":
		return p.doAppend(args[0].(SliceV), args[1], fv), stNext
	case "copy":
		dst := args[0].(SliceV)
		var src []Value
		switch s := args[1].(type) {
		case SliceV:
			src = append([]Value{}, p.sliceElems(s)...)
		case StrV:
			str := p.concStr(s, "copy from string")
			for i := 0; i < len(str); i++ {
				src = append(src, p.tc.Const(8, uint64(str[i])))
			}
		}
		n := dst.ln
		if len(src) < n {
			n = len(src)
		}
		if n > 0 {
			arr := p.load(dst.base).(ArrayV)
			ne := make([]Value, len(arr.e))
			copy(ne, arr.e)
			copy(ne[dst.off:dst.off+n], src[:n])
			p.store(dst.base, ArrayV{ne})
		}
		return p.tc.Const(64, uint64(n)), stNext
	case "delete":
		m, _ := args[0].(*MapObj)
		if m != nil {
			m.del(p.keyOf(p.concKey(args[1])))
		}
		return nil, stNext
	case "close":
		ch, _ := args[0].(*ChanObj)
		if ch == nil {
			p.runtimePanic("close of nil channel")
		}
		if ch.closed {
			p.runtimePanic("close of closed channel")
		}
		ch.closed = true
		return nil, stNext
	case "panic":
		p.end("panic", "explicit panic: "+p.describe(args[0])+p.where())
	case "print", "println":
		return nil, stNext
	case "recover":
		return IfaceV{}, stNext
	case "ssa:wrapnilchk":
		if isNil(args[0]) {
			p.runtimePanic("value method called using nil pointer")
		}
		return args[0], stNext
	case "SliceData":
		// unsafe.SliceData: only its use by unsafe.String (strings.Builder.String) is supported
		if sv, ok := args[0].(SliceV); ok {
			return sliceDataV{sv}, stNext
		}
	case "String":
		if sd, ok := args[0].(sliceDataV); ok {
			n := int(p.concInt(args[1], "unsafe.String length"))
			es := p.sliceElems(sd.s)
			if n > len(es) {
				p.runtimePanic("unsafe.String: len out of range")
			}
			bs := make([]byte, n)
			for i := 0; i < n; i++ {
				bs[i] = byte(p.concInt(es[i], "unsafe.String bytes"))
			}
			return conc(string(bs)), stNext
		}
	case "min", "max":
		a, b := args[0].(*Term), args[1].(*Term)
		lt := p.tc.Cmp("bvslt", a, b)
		if name == "min" {
			return p.tc.Ite(lt, a, b), stNext
		}
		return p.tc.Ite(lt, b, a), stNext
	}
	p.unsupported("builtin " + name + fmt.Sprintf(" on %T", args[0]))
	return nil, stNext
}

// sliceDataV: the result of unsafe.SliceData (pointer to a slice's backing array)
type sliceDataV struct{ s SliceV }

var sizeClasses = []int{0, 8, 16, 24, 32, 48, 64, 80, 96, 112, 128, 144, 160, 176, 192, 208, 224, 240, 256, 288, 320, 352, 384, 416, 448, 480, 512, 576, 640, 704, 768, 896, 1024, 1152, 1280, 1408, 1536, 1792, 2048, 2304, 2688, 3072, 3200, 3456, 4096, 4864, 5120, 5376, 6144, 6528, 6784, 6912, 8192, 9472, 9728, 10240, 10880, 12288, 13568, 14336, 16384, 18432, 19072, 20480, 21760, 24576, 27264, 28672, 32768}

// roundupsize mirrors runtime.roundupsize of Go 1.22+/1.23: objects with pointers
// larger than 512 bytes carry an 8-byte malloc header.
func roundupsize(n int, noscan bool) int {
	req := n
	if req <= 32768-8 {
		if !noscan && req > 512 {
			req += 8
		}
		for _, c := range sizeClasses {
			if c >= req {
				return c - (req - n)
			}
		}
	}
	const page = 8192
	return (n + page - 1) / page * page
}

func hasPointers(t types.Type) bool {
	switch u := t.Underlying().(type) {
	case *types.Basic:
		return u.Kind() == types.String || u.Kind() == types.UnsafePointer
	case *types.Array:
		return u.Len() > 0 && hasPointers(u.Elem())
	case *types.Struct:
		for i := 0; i < u.NumFields(); i++ {
			if hasPointers(u.Field(i).Type()) {
				return true
			}
		}
		return false
	}
	return true
}

var stdSizes = types.StdSizes{WordSize: 8, MaxAlign: 8}

func growCap(oldCap, newLen, elemSize int, noscan bool) int {
	newcap := oldCap
	doublecap := newcap + newcap
	if newLen > doublecap {
		newcap = newLen
	} else {
		const threshold = 256
		if oldCap < threshold {
			newcap = doublecap
		} else {
			for {
				newcap += (newcap + 3*threshold) >> 2
				if uint(newcap) >= uint(newLen) {
					break
				}
			}
		}
	}
	if elemSize <= 0 {
		return newcap
	}
	mem := roundupsize(newcap*elemSize, noscan)
	return mem / elemSize
}

func (p *Path) doAppend(s SliceV, add Value, fv *FuncV) Value {
	var extra []Value
	switch a := add.(type) {
	case SliceV:
		extra = append([]Value{}, p.sliceElems(a)...)
	case StrV:
		str := p.concStr(a, "append string")
		for i := 0; i < len(str); i++ {
			extra = append(extra, p.tc.Const(8, uint64(str[i])))
		}
	}
	if len(extra) == 0 {
		return s
	}
	newLen := s.ln + len(extra)
	if s.base != nil && newLen <= s.cp {
		arr := p.load(s.base).(ArrayV)
		ne := make([]Value, len(arr.e))
		copy(ne, arr.e)
		copy(ne[s.off+s.ln:], extra)
		p.store(s.base, ArrayV{ne})
		return SliceV{base: s.base, off: s.off, ln: newLen, cp: s.cp}
	}
	// element type: from the existing backing array or from the argument
	var elem types.Type
	if s.base != nil {
		elem = p.elemTypeOf(s.base)
	}
	if elem == nil {
		if as, ok := add.(SliceV); ok && as.base != nil {
			elem = p.elemTypeOf(as.base)
		}
	}
	if elem == nil {
		elem = types.Typ[types.Uint8]
	}
	es := int(stdSizes.Sizeof(elem))
	ncap := growCap(s.cp, newLen, es, !hasPointers(elem))
	ns := p.makeSlice(elem, newLen, ncap)
	arr := ns.base.obj.v.(ArrayV)
	copy(arr.e, p.sliceElems(s))
	copy(arr.e[s.ln:], extra)
	return ns
}

func (p *Path) elemTypeOf(base *Ptr) types.Type {
	t := base.obj.typ
	for _, e := range base.path {
		switch u := t.Underlying().(type) {
		case *types.Struct:
			t = u.Field(e.idx).Type()
		case *types.Array:
			t = u.Elem()
		default:
			return nil
		}
	}
	if a, ok := t.Underlying().(*types.Array); ok {
		return a.Elem()
	}
	return nil
}
