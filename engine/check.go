package main

import (
	"encoding/json"
	"flag"
	"fmt"
	"os"
	"path/filepath"
	"sort"
	"strings"
	"time"
)

// ---------------------------------------------------------------------------
// check configuration (/verif/harness/checks.json)

type HarnessGroup struct {
	Sets         []string                  `json:"sets"`
	Redirects    string                    `json:"redirects"`
	Pkg          string                    `json:"pkg"`
	Names        []string                  `json:"names"`
	Quick        map[string]int            `json:"quick"`
	Thorough     map[string]int            `json:"thorough"`
	PerName      map[string]map[string]int `json:"per_name"` // extra params per harness (both tiers)
	PerNameT     map[string]map[string]int `json:"per_name_thorough"`
	MapOrderQ    int                       `json:"maporder_quick"`
	MapOrderT    int                       `json:"maporder_thorough"`
	MaxSteps     int                       `json:"maxsteps"`
	MaxLoop      int                       `json:"maxloop"`
	BoundedLoops map[string]int            `json:"bounded_loops"`
	Require      []string                  `json:"require_reach"`
	ThoroughOnly []string                  `json:"thorough_only"`
	ExtraInterp  []string                  `json:"extra_interp"`
	RewritePkgs  []string                  `json:"rewrite_pkgs"`
	NativeEnv    bool                      `json:"native_env"`
	// with native_env: external callees whose call sites are still bound to their stub in
	// the native replay (the stub's native variant wraps the real call)
	NativeCallsites []string `json:"native_callsites"`
}

type CheckSpec struct {
	Title       string         `json:"title"`
	Explanation string         `json:"explanation"`
	Bounds      string         `json:"bounds"`
	BoundsT     string         `json:"bounds_thorough"`
	Outside     []string       `json:"outside_claim"`
	Assumptions []string       `json:"assumptions"`
	Anchors     []string       `json:"anchors"`
	Groups      []HarnessGroup `json:"groups"`
}

type KnownFinding struct {
	Property string `json:"property"`
	Harness  string `json:"harness"`
	Key      string `json:"key"` // kind:id of the violation
	What     string `json:"what"`
	Status   string `json:"status"` // known | fixed
	Commit   string `json:"commit,omitempty"`
}

type ReplayFile struct {
	Property        string            `json:"property"`
	Harness         string            `json:"harness"`
	Package         string            `json:"package"`
	Sets            []string          `json:"sets"`
	Redirects       string            `json:"redirects"`
	Params          map[string]int    `json:"params"`
	Assignment      map[string]uint64 `json:"assignment"`
	RewritePkgs     []string          `json:"rewrite_pkgs"`
	NativeEnv       bool              `json:"native_env"`
	NativeCallsites []string          `json:"native_callsites,omitempty"`
	Fallbacks       []string          `json:"fallbacks,omitempty"` // overlay targets replaced by their fallback variant
	Expect          struct {
		Kind string `json:"kind"`
		ID   string `json:"id"`
		Msg  string `json:"msg"`
	} `json:"expect"`
}

func violKey(v Violation) string { return v.Kind + ":" + v.ID }

func cmdCheck(args []string) int {
	fs := flag.NewFlagSet("check", flag.ExitOnError)
	repo := fs.String("repo", "/repo", "repository root")
	vdir := fs.String("verif", "/verif", "verif root")
	tier := fs.String("tier", "", "quick|thorough")
	workers := fs.Int("workers", 16, "workers")
	noReplay := fs.Bool("noreplay", false, "skip native replay (debugging only; violations are then reported as inconclusive)")
	only := fs.String("only", "", "run only harnesses whose name contains this")
	verbose := fs.Bool("v", false, "verbose")
	fs.Parse(args)
	if fs.NArg() < 1 {
		fmt.Fprintln(os.Stderr, "usage: gosymx check [--tier quick|thorough] <property>")
		return 2
	}
	prop := fs.Arg(0)
	if *tier == "" {
		*tier = os.Getenv("VERIF_TIER")
	}
	if *tier != "thorough" {
		*tier = "quick"
	}
	seed := 0
	fmt.Sscanf(os.Getenv("VERIF_SEED"), "%d", &seed)
	t0 := time.Now()
	hdir := filepath.Join(*vdir, "harness")
	var specs map[string]CheckSpec
	data, err := os.ReadFile(filepath.Join(hdir, "checks.json"))
	if err != nil {
		fmt.Fprintln(os.Stderr, err)
		return 2
	}
	if err := json.Unmarshal(data, &specs); err != nil {
		fmt.Fprintln(os.Stderr, "checks.json:", err)
		return 2
	}
	spec, ok := specs[prop]
	if !ok {
		fmt.Fprintln(os.Stderr, "no check registered for", prop)
		return 2
	}
	var known []KnownFinding
	if kd, err := os.ReadFile(filepath.Join(*vdir, "known_findings.json")); err == nil {
		if err := json.Unmarshal(kd, &known); err != nil {
			fmt.Fprintln(os.Stderr, "known_findings.json:", err)
			return 2
		}
	}

	var results []*HarnessResult
	var inconclusive []string
	for gi, g := range spec.Groups {
		cfg := defaultConfig()
		cfg.Workers = *workers
		cfg.Verbose = *verbose
		cfg.CrossCheck = *tier == "thorough"
		if g.MaxSteps > 0 {
			cfg.MaxSteps = g.MaxSteps
		}
		if g.MaxLoop > 0 {
			cfg.MaxLoop = g.MaxLoop
		}
		for k, v := range g.BoundedLoops {
			cfg.BoundedLoops[k] = v
		}
		cfg.MapOrder = g.MapOrderQ
		if *tier == "thorough" {
			cfg.MapOrder = g.MapOrderT
		}
		ov, _, err := buildOverlay(*repo, hdir, g.Sets, "sym")
		if err != nil {
			fmt.Fprintln(os.Stderr, "overlay:", err)
			return 2
		}
		eng, err := loadEngine(LoadSpec{RepoDir: *repo, Patterns: []string{g.Pkg}, Overlay: ov}, cfg)
		if le, ok := err.(*LoadError); ok {
			// harness files that no longer type-check against this tree and have a fallback
			// variant (same helpers, without the unexported names that vanished): swap, retry
			swapped := false
			for file := range le.Files {
				if _, has := overlayFallbacks[file]; has {
					if rt, rerr := filepath.Rel(*repo, file); rerr == nil && !useFallbacks[rt] {
						useFallbacks[rt] = true
						swapped = true
						fmt.Printf("NOTE property=%s: harness file %s does not type-check against this tree; using its fallback variant\n", prop, rt)
					}
				}
			}
			if swapped {
				ov, _, err = buildOverlay(*repo, hdir, g.Sets, "sym")
				if err == nil {
					eng, err = loadEngine(LoadSpec{RepoDir: *repo, Patterns: []string{g.Pkg}, Overlay: ov}, cfg)
				}
			}
		}
		if err != nil {
			// a tree that no longer compiles with the harness: inconclusive, never a pass
			fmt.Printf("INCONCLUSIVE property=%s group=%d: cannot load %s with harness overlay: %v\n", prop, gi, g.Pkg, err)
			inconclusive = append(inconclusive, "load failure: "+err.Error())
			continue
		}
		for _, x := range g.ExtraInterp {
			eng.extraInterp[x] = true
		}
		if g.Redirects != "" {
			if err := eng.loadRedirectFiles(hdir, g.Redirects, g.Pkg); err != nil {
				fmt.Printf("INCONCLUSIVE property=%s: redirects: %v\n", prop, err)
				inconclusive = append(inconclusive, "redirects: "+err.Error())
				continue
			}
		}
		for _, name := range g.Names {
			if *only != "" && !strings.Contains(name, *only) {
				continue
			}
			skip := false
			for _, t := range g.ThoroughOnly {
				if t == name && *tier != "thorough" {
					skip = true
				}
			}
			if skip {
				continue
			}
			params := map[string]int{}
			src := g.Quick
			if *tier == "thorough" {
				src = g.Thorough
				if src == nil {
					src = g.Quick
				}
			}
			for k, v := range src {
				params[k] = v
			}
			for k, v := range g.PerName[name] {
				params[k] = v
			}
			if *tier == "thorough" {
				for k, v := range g.PerNameT[name] {
					params[k] = v
				}
			}
			eng.cfg.Params = params
			res, err := eng.RunHarness(g.Pkg, name)
			if err != nil {
				fmt.Printf("INCONCLUSIVE property=%s harness=%s: %v\n", prop, name, err)
				inconclusive = append(inconclusive, err.Error())
				continue
			}
			res.groupIdx = gi
			results = append(results, res)
			fmt.Printf("harness %s params=%v: paths=%d (%v) assertions=%d panic-obligations=%d solver-queries=%d solver=%dms wall=%.1fs violations=%d\n",
				name, params, res.Paths, res.Ends, res.Asserts, res.Obligations, res.Queries, res.SolverMs, res.WallS, len(res.Violations))
			for _, m := range res.Inconclusive {
				fmt.Printf("INCONCLUSIVE property=%s harness=%s: %s\n", prop, name, m)
				inconclusive = append(inconclusive, name+": "+m)
			}
			// vacuity: required witnesses
			for _, w := range g.Require {
				if strings.HasPrefix(w, name+":") {
					tag := w[len(name)+1:]
					found := false
					for _, r := range res.Reached {
						if r == tag {
							found = true
						}
					}
					if !found {
						msg := fmt.Sprintf("VACUOUS: witness %q not reached in %s", tag, name)
						fmt.Printf("INCONCLUSIVE property=%s %s\n", prop, msg)
						inconclusive = append(inconclusive, msg)
					}
				}
			}
		}
	}

	// classify violations
	exit := 0
	nviol := 0
	var knownSeen []string
	replayDir := filepath.Join(*vdir, "replays", prop)
	for _, res := range results {
		for _, v := range res.Violations {
			key := violKey(v)
			var kf *KnownFinding
			for i := range known {
				k := &known[i]
				if k.Property == prop && k.Harness == res.Harness && k.Key == key && k.Status == "known" {
					kf = k
				}
			}
			g := spec.Groups[res.groupIdx]
			rf := ReplayFile{Property: prop, Harness: res.Harness, Package: res.Package, Sets: g.Sets, Redirects: g.Redirects,
				Params: res.Params, Assignment: v.Assignment, RewritePkgs: g.RewritePkgs, NativeEnv: g.NativeEnv, NativeCallsites: g.NativeCallsites}
			for rt := range useFallbacks {
				rf.Fallbacks = append(rf.Fallbacks, rt)
			}
			sort.Strings(rf.Fallbacks)
			rf.Expect.Kind, rf.Expect.ID, rf.Expect.Msg = v.Kind, v.ID, v.Msg
			os.MkdirAll(replayDir, 0755)
			rpath := filepath.Join(replayDir, sanitize(res.Harness+"-"+key)+".json")
			rd, _ := json.MarshalIndent(rf, "", " ")
			os.WriteFile(rpath, rd, 0644)
			if kf != nil {
				line := fmt.Sprintf("KNOWN-FINDING: property=%s %s [harness=%s %s]", prop, kf.What, res.Harness, key)
				knownSeen = append(knownSeen, line)
				fmt.Println(line)
				continue
			}
			if *noReplay {
				fmt.Printf("INCONCLUSIVE property=%s harness=%s: counterexample %s not replayed (--noreplay): %s %v\n", prop, res.Harness, key, v.Msg, v.Assignment)
				inconclusive = append(inconclusive, "not replayed: "+key)
				continue
			}
			ok, out := runReplay(*repo, hdir, rf)
			if ok {
				nviol++
				exit = 1
				fmt.Printf("counterexample for %s in %s: %s\n  assignment: %v\n", key, res.Harness, v.Msg, v.Assignment)
				fmt.Printf("VIOLATION property=%s replay=%s\n", prop, rpath)
			} else {
				msg := fmt.Sprintf("ENGINE-MISMATCH: counterexample for %s in %s did not reproduce natively (%s)", key, res.Harness, lastLines(out, 6))
				fmt.Printf("INCONCLUSIVE property=%s %s\n", prop, msg)
				inconclusive = append(inconclusive, msg)
			}
		}
	}
	if exit == 0 && len(inconclusive) > 0 {
		exit = 2
	}
	writeEvidence(*vdir, prop, *tier, seed, spec, results, inconclusive, knownSeen, nviol, time.Since(t0).Seconds())
	if exit == 0 {
		fmt.Printf("OK property=%s tier=%s: held on everything explored (%d harnesses, %.1fs)\n", prop, *tier, len(results), time.Since(t0).Seconds())
	}
	return exit
}

func sanitize(s string) string {
	var sb strings.Builder
	for _, r := range s {
		if (r >= 'a' && r <= 'z') || (r >= 'A' && r <= 'Z') || (r >= '0' && r <= '9') || r == '-' || r == '_' || r == '.' {
			sb.WriteRune(r)
		} else {
			sb.WriteByte('_')
		}
	}
	return sb.String()
}

func lastLines(s string, n int) string {
	ls := strings.Split(strings.TrimSpace(s), "\n")
	if len(ls) > n {
		ls = ls[len(ls)-n:]
	}
	return strings.Join(ls, " | ")
}

// ---------------------------------------------------------------------------
// evidence

func writeEvidence(vdir, prop, tier string, seed int, spec CheckSpec, results []*HarnessResult, inconclusive, knownSeen []string, nviol int, wall float64) {
	paths, nontrivial, obligations, discharged, queries := 0, 0, 0, 0, 0
	var solverMs int64
	funcs := map[string]int{}
	hashes := map[string]string{}
	redirects := map[string]int{}
	var samples []interface{}
	var hs []interface{}
	reached := map[string]bool{}
	cross := 0
	for _, r := range results {
		paths += r.Paths
		nontrivial += r.Nontrivial
		obligations += r.Asserts + r.Obligations
		queries += r.Queries
		solverMs += r.SolverMs
		cross += r.CrossChecked
		for k, v := range r.Funcs {
			funcs[k] += v
		}
		for k, v := range r.FuncHash {
			hashes[k] = v
		}
		for k, v := range r.Redirects {
			redirects[k] += v
		}
		for _, t := range r.Reached {
			reached[r.Harness+":"+t] = true
		}
		for _, s := range r.Samples {
			samples = append(samples, map[string]interface{}{"harness": r.Harness, "path": s})
		}
		hs = append(hs, map[string]interface{}{
			"harness": r.Harness, "package": r.Package, "params": r.Params, "paths": r.Paths, "path_ends": r.Ends,
			"assertions_evaluated": r.Asserts, "panic_obligations": r.Obligations, "solver_queries": r.Queries,
			"solver_sat": r.Sat, "solver_unsat": r.Unsat, "solver_unknown": r.Unknown, "solver_ms": r.SolverMs,
			"instructions": r.Steps, "max_symbolic_decisions_on_a_path": r.MaxDecisions, "witnesses_reached": r.Reached,
			"violations": len(r.Violations), "wall_s": r.WallS, "crosschecked_queries": r.CrossChecked,
		})
	}
	discharged = obligations - nviol - len(knownSeen)
	if discharged < 0 {
		discharged = 0
	}
	// functions of the module actually interpreted
	var encoded []string
	for k := range hashes {
		encoded = append(encoded, k+" ssa#"+hashes[k])
	}
	sort.Strings(encoded)
	// anchor coverage
	anchor := map[string]string{}
	for _, a := range spec.Anchors {
		st := "NOT-ENCODED"
		for k, n := range funcs {
			if strings.HasSuffix(k, a) || strings.Contains(k, a) {
				st = fmt.Sprintf("interpreted on %d paths", n)
				break
			}
		}
		anchor[a] = st
	}
	var rl []string
	for k := range reached {
		rl = append(rl, k)
	}
	sort.Strings(rl)
	if len(samples) == 0 {
		samples = append(samples, "no completed path with symbolic input in this run")
	}
	bounds := spec.Bounds
	if tier == "thorough" && spec.BoundsT != "" {
		bounds = spec.BoundsT
	}
	ev := map[string]interface{}{
		"property_id": prop,
		"tier":        tier,
		"seed":        seed,
		"level":       "other",
		"coverage": map[string]interface{}{
			"explanation":             "Bounded symbolic execution of the repository's own Go code (go/ssa of /repo's working tree, rebuilt on this run) with an SMT solver (z3) deciding every assertion and every panic obligation for all values of the symbolic inputs within the stated bounds. " + spec.Explanation,
			"bounds":                  bounds,
			"outside_claim":           spec.Outside,
			"evaluations":             paths,
			"distinct_nontrivial":     nontrivial,
			"rule":                    "one evaluation = one feasible execution path of a harness (a distinct decision vector over symbolic branches); non-trivial = the path completed and depended on at least one symbolic input; on each path the assertions are decided by the solver for all remaining symbolic values at once",
			"obligations":             obligations,
			"discharged":              discharged,
			"solver_queries":          queries,
			"solver_ms":               solverMs,
			"crosschecked_queries":    cross,
			"harnesses":               hs,
			"functions_encoded":       encoded,
			"environment_stubs_used":  redirects,
			"anchor_coverage":         anchor,
			"witnesses_reached":       rl,
			"samples":                 samples,
			"inconclusive":            inconclusive,
			"known_findings_observed": knownSeen,
			"exhaustive":              false,
		},
		"assumptions": spec.Assumptions,
		"wall_s":      wall,
		"violations":  nviol,
	}
	os.MkdirAll(filepath.Join(vdir, "evidence"), 0755)
	data, _ := json.MarshalIndent(ev, "", " ")
	os.WriteFile(filepath.Join(vdir, "evidence", prop+".json"), data, 0644)
}
