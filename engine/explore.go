package main

import (
	"crypto/sha1"
	"encoding/hex"
	"fmt"
	"go/types"
	"os"
	"os/exec"
	"path/filepath"
	"sort"
	"strings"
	"sync"
	"time"

	"golang.org/x/tools/go/packages"
	"golang.org/x/tools/go/ssa"
	"golang.org/x/tools/go/ssa/ssautil"
)

const modulePrefix = "github.com/openebs/jiva"

type Config struct {
	MaxSteps int
	MaxLoop  int
	MaxDepth int
	MaxAlloc int
	EnumCap  int
	MaxPaths int
	Params   map[string]int
	// BoundedLoops: functions (substring of their ssa name) whose loops are known to end
	// within the given number of iterations on every well-formed state of the harness's
	// size; running past it is reported as a hang (the process spins, typically holding a
	// lock), not as an unwinding failure
	BoundedLoops map[string]int
	MapOrder     int
	ForkIndex    bool
	CrossCheck   bool
	Verbose      bool
	Workers      int
	SolverBin    string
	Samples      int
	TraceFile    string
}

func defaultConfig() Config {
	return Config{MaxSteps: 400000, MaxLoop: 300, MaxDepth: 200, MaxAlloc: 1 << 16, EnumCap: 256, MaxPaths: 2000000,
		Params: map[string]int{}, BoundedLoops: map[string]int{}, Workers: 16, SolverBin: envOr("GOSYMX_SOLVER", defaultSolver()), Samples: 4}
}

type Engine struct {
	prog          *ssa.Program
	pkgs          []*packages.Package
	cfg           Config
	redirects     map[string]*ssa.Function
	sharedGlobals map[string]string
	extraInterp   map[string]bool
	redirectMu    sync.Mutex
	redirectUse   map[string]int
	repoDir       string
	funcIdx       map[string]*ssa.Function
	funcIdxOnce   sync.Once
	metaCache     sync.Map
}

func (e *Engine) noteRedirect(name string) {
	e.redirectMu.Lock()
	e.redirectUse[name]++
	e.redirectMu.Unlock()
}

func (e *Engine) interpretPkg(p *types.Package) bool {
	if p == nil {
		return false
	}
	pp := p.Path()
	return strings.HasPrefix(pp, modulePrefix) || interpPkgs[pp] || e.extraInterp[pp]
}

func (e *Engine) interpretFn(fn *ssa.Function) bool {
	if len(fn.Blocks) == 0 {
		return false
	}
	if fn.Synthetic != "" && fn.Pkg == nil {
		return true
	}
	pp := pkgPathOf(fn)
	return strings.HasPrefix(pp, modulePrefix) || interpPkgs[pp] || e.extraInterp[pp]
}

// HarnessFiles maps overlay targets (absolute paths under the repo) to contents.
type LoadSpec struct {
	RepoDir  string
	Patterns []string          // package patterns to load (import paths)
	Overlay  map[string][]byte // absolute path -> content
}

// LoadError: the packages did not type-check; Files = files the errors are located in.
type LoadError struct {
	Files map[string]bool
	Msg   string
}

func (e *LoadError) Error() string { return e.Msg }

func loadEngine(spec LoadSpec, cfg Config) (*Engine, error) {
	pcfg := &packages.Config{
		Mode: packages.NeedName | packages.NeedFiles | packages.NeedCompiledGoFiles | packages.NeedImports |
			packages.NeedDeps | packages.NeedTypes | packages.NeedSyntax | packages.NeedTypesInfo | packages.NeedTypesSizes | packages.NeedModule,
		Dir:     spec.RepoDir,
		Env:     append(os.Environ(), "GOFLAGS=-mod=mod", "GOPROXY=off", "GOSUMDB=off", "GOTOOLCHAIN=local", "CGO_ENABLED=1"),
		Overlay: spec.Overlay,
	}
	pkgs, err := packages.Load(pcfg, spec.Patterns...)
	if err != nil {
		return nil, err
	}
	nerr := 0
	var msgs []string
	files := map[string]bool{}
	packages.Visit(pkgs, nil, func(p *packages.Package) {
		for _, e := range p.Errors {
			nerr++
			if i := strings.Index(e.Pos, ":"); i > 0 {
				files[e.Pos[:i]] = true
			}
			if len(msgs) < 20 {
				msgs = append(msgs, p.PkgPath+": "+e.Error())
			}
		}
	})
	if nerr > 0 {
		return nil, &LoadError{Files: files, Msg: fmt.Sprintf("package load errors (%d):\n%s", nerr, strings.Join(msgs, "\n"))}
	}
	prog, _ := ssautil.AllPackages(pkgs, ssa.InstantiateGenerics)
	prog.Build()
	e := &Engine{prog: prog, pkgs: pkgs, cfg: cfg, redirects: map[string]*ssa.Function{}, sharedGlobals: stdErrorGlobals,
		extraInterp: map[string]bool{}, redirectUse: map[string]int{}, repoDir: spec.RepoDir}
	return e, nil
}

func (e *Engine) findFunc(pkgPath, name string) *ssa.Function {
	for _, p := range e.prog.AllPackages() {
		if p.Pkg.Path() == pkgPath {
			if f := p.Func(name); f != nil {
				return f
			}
		}
	}
	return nil
}

// resolveFuncByString finds a function (or method) by its ssa String() form.
func (e *Engine) buildFuncIndex() map[string]*ssa.Function {
	idx := map[string]*ssa.Function{}
	for fn := range ssautil.AllFunctions(e.prog) {
		idx[fn.String()] = fn
	}
	return idx
}

// ---------------------------------------------------------------------------

type PathSummary struct {
	End        string            `json:"end"`
	Decisions  int               `json:"decisions"`
	Steps      int               `json:"steps"`
	Assignment map[string]uint64 `json:"assignment,omitempty"`
	Reached    []string          `json:"reached,omitempty"`
}

type HarnessResult struct {
	Harness       string            `json:"harness"`
	Package       string            `json:"package"`
	Params        map[string]int    `json:"params"`
	Paths         int               `json:"paths"`
	Ends          map[string]int    `json:"ends"`
	Nontrivial    int               `json:"nontrivial_paths"`
	Asserts       int               `json:"assertions_evaluated"`
	Obligations   int               `json:"panic_obligations"`
	Steps         int64             `json:"instructions"`
	Queries       int               `json:"solver_queries"`
	SolverMs      int64             `json:"solver_ms"`
	Sat           int               `json:"solver_sat"`
	Unsat         int               `json:"solver_unsat"`
	Unknown       int               `json:"solver_unknown"`
	SolverErrors  int               `json:"solver_errors"`
	Reached       []string          `json:"reached"`
	Violations    []Violation       `json:"violations"`
	Inconclusive  []string          `json:"inconclusive"`
	Funcs         map[string]int    `json:"functions"`
	FuncHash      map[string]string `json:"function_hashes,omitempty"`
	Redirects     map[string]int    `json:"redirects_used"`
	Samples       []PathSummary     `json:"samples"`
	WallS         float64           `json:"wall_s"`
	CrossChecked  int               `json:"crosschecked_queries"`
	CrossDisagree []string          `json:"crosscheck_disagreements"`
	MaxDecisions  int               `json:"max_decisions"`
	PathMs        int64             `json:"path_ms_total"`
	ModelMs       int64             `json:"model_ms"`
	Models        int               `json:"models"`
	groupIdx      int
}

type worklist struct {
	mu     sync.Mutex
	cond   *sync.Cond
	items  [][]int
	active int
	stop   bool
}

func (w *worklist) push(it []int) {
	w.mu.Lock()
	w.items = append(w.items, it)
	w.mu.Unlock()
	w.cond.Signal()
}

func (w *worklist) pop() ([]int, bool) {
	w.mu.Lock()
	defer w.mu.Unlock()
	for {
		if w.stop {
			return nil, false
		}
		if n := len(w.items); n > 0 {
			it := w.items[n-1]
			w.items = w.items[:n-1]
			w.active++
			return it, true
		}
		if w.active == 0 {
			w.cond.Broadcast()
			return nil, false
		}
		w.cond.Wait()
	}
}

func (w *worklist) done() {
	w.mu.Lock()
	w.active--
	if w.active == 0 && len(w.items) == 0 {
		w.cond.Broadcast()
	}
	w.mu.Unlock()
}

func (e *Engine) RunHarness(pkgPath, name string) (*HarnessResult, error) {
	entry := e.findFunc(pkgPath, name)
	if entry == nil {
		return nil, fmt.Errorf("harness %s.%s not found", pkgPath, name)
	}
	t0 := time.Now()
	res := &HarnessResult{Harness: name, Package: pkgPath, Params: e.cfg.Params, Ends: map[string]int{}, Funcs: map[string]int{}}
	reached := map[string]bool{}
	var mu sync.Mutex
	wl := &worklist{}
	wl.cond = sync.NewCond(&wl.mu)
	wl.push([]int{})
	var wg sync.WaitGroup
	nw := e.cfg.Workers
	if nw < 1 {
		nw = 1
	}
	violSeen := map[string]bool{}
	var crossQueries []string
	for w := 0; w < nw; w++ {
		wg.Add(1)
		go func() {
			defer wg.Done()
			sol, err := NewSolver(e.cfg.SolverBin)
			if err != nil {
				mu.Lock()
				res.Inconclusive = append(res.Inconclusive, "cannot start solver: "+err.Error())
				mu.Unlock()
				return
			}
			defer func() {
				mu.Lock()
				res.Queries += sol.Queries
				res.SolverMs += sol.Dur.Milliseconds()
				res.ModelMs += sol.ModelDur.Milliseconds()
				res.Models += sol.Models
				res.Sat += sol.Sat
				res.Unsat += sol.Unsat
				res.Unknown += sol.Unknown
				res.SolverErrors += sol.Errors
				mu.Unlock()
				sol.Close()
			}()
			for {
				prefix, ok := wl.pop()
				if !ok {
					return
				}
				mu.Lock()
				wantSample := len(res.Samples) < e.cfg.Samples
				mu.Unlock()
				tp0 := time.Now()
				p, end := e.runPath(sol, entry, prefix, wantSample)
				pathDur := time.Since(tp0)
				for _, alt := range p.pending {
					wl.push(alt)
				}
				mu.Lock()
				res.Paths++
				res.PathMs += pathDur.Milliseconds()
				res.Ends[end.kind]++
				res.Steps += int64(p.steps)
				res.Asserts += p.asserts
				res.Obligations += p.obligations
				if len(p.trace) > res.MaxDecisions {
					res.MaxDecisions = len(p.trace)
				}
				if end.kind == "done" && (p.symDecisions > 0 || len(p.nondets) > 0) {
					res.Nontrivial++
				}
				for k := range p.reached {
					reached[k] = true
				}
				for fn, n := range p.funcs {
					res.Funcs[e.meta(fn).name] += n
				}
				for k, n := range p.redirectsUsed {
					e.redirectUse[k] += n
				}
				for _, v := range p.violations {
					key := v.Kind + "|" + v.ID
					if !violSeen[key] {
						violSeen[key] = true
						res.Violations = append(res.Violations, v)
					}
				}
				for _, m := range p.inconclusive {
					if len(res.Inconclusive) < 50 {
						res.Inconclusive = append(res.Inconclusive, m)
					}
				}
				if end.kind == "infeasible" && e.cfg.Verbose {
					fmt.Println("infeasible:", end.msg, "decisions", len(p.trace))
				}
				switch end.kind {
				case "unsupported", "unwind", "internal":
					if len(res.Inconclusive) < 50 {
						res.Inconclusive = append(res.Inconclusive, end.kind+": "+end.msg)
					}
				}
				if p.sample != nil && len(res.Samples) < e.cfg.Samples {
					res.Samples = append(res.Samples, *p.sample)
				}
				if len(crossQueries) < 400 {
					crossQueries = append(crossQueries, p.assertQueries...)
				}
				tooMany := res.Paths >= e.cfg.MaxPaths
				mu.Unlock()
				if tooMany {
					wl.mu.Lock()
					wl.stop = true
					wl.mu.Unlock()
					wl.cond.Broadcast()
				}
				wl.done()
			}
		}()
	}
	wg.Wait()
	if wl.stop {
		res.Inconclusive = append(res.Inconclusive, fmt.Sprintf("unwind: path budget %d exhausted", e.cfg.MaxPaths))
	}
	for k := range reached {
		res.Reached = append(res.Reached, k)
	}
	sort.Strings(res.Reached)
	res.Redirects = map[string]int{}
	e.redirectMu.Lock()
	for k, v := range e.redirectUse {
		res.Redirects[k] = v
	}
	e.redirectUse = map[string]int{}
	e.redirectMu.Unlock()
	// hashes of the interpreted module functions (shows the encoding follows the source)
	res.FuncHash = map[string]string{}
	idx := e.buildFuncIndexCached()
	for name := range res.Funcs {
		if fn := idx[name]; fn != nil && strings.HasPrefix(pkgPathOf(fn), modulePrefix) && !strings.Contains(fn.Name(), "zz") {
			res.FuncHash[name] = hashFunc(fn)
		}
	}
	if e.cfg.CrossCheck {
		e.crossCheck(res, crossQueries)
	}
	res.WallS = time.Since(t0).Seconds()
	return res, nil
}

func (e *Engine) buildFuncIndexCached() map[string]*ssa.Function {
	e.funcIdxOnce.Do(func() { e.funcIdx = e.buildFuncIndex() })
	return e.funcIdx
}

func hashFunc(fn *ssa.Function) string {
	var sb strings.Builder
	fn.WriteTo(&sb)
	h := sha1.Sum([]byte(sb.String()))
	return hex.EncodeToString(h[:6])
}

func (e *Engine) crossCheck(res *HarnessResult, queries []string) {
	type solver struct {
		bin   string
		args  []string
		logic string
	}
	others := []solver{{"z3", []string{"-in"}, ""}, {"cvc5", []string{"--lang=smt2"}, "QF_BV"}}
	var mu sync.Mutex
	sem := make(chan struct{}, e.cfg.Workers)
	var wg sync.WaitGroup
	for _, q := range queries {
		for _, s := range others {
			wg.Add(1)
			sem <- struct{}{}
			go func(q string, s solver) {
				defer wg.Done()
				defer func() { <-sem }()
				script := q
				if s.logic != "" {
					script = "(set-logic " + s.logic + ")\n" + q
				}
				base := runStandalone(e.cfg.SolverBin, []string{"-in"}, q, 60*time.Second)
				r := runStandalone(s.bin, s.args, script, 60*time.Second)
				mu.Lock()
				res.CrossChecked++
				if r != base {
					res.CrossDisagree = append(res.CrossDisagree, fmt.Sprintf("%s says %s, %s says %s", s.bin, r, e.cfg.SolverBin, base))
				}
				mu.Unlock()
			}(q, s)
		}
	}
	wg.Wait()
	if len(res.CrossDisagree) > 0 {
		res.Inconclusive = append(res.Inconclusive, fmt.Sprintf("solver cross-check: %d disagreements (first: %s)", len(res.CrossDisagree), res.CrossDisagree[0]))
	}
}

// runPath executes one path from the harness entry following prefix.
func (e *Engine) runPath(sol *Solver, entry *ssa.Function, prefix []int, wantSample bool) (p *Path, end pathEnd) {
	p = &Path{eng: e, tc: newTermCtx(), sol: sol, prefix: prefix,
		globals: map[*ssa.Global]*Obj{}, initDone: map[*ssa.Package]bool{}, locks: map[string]*lockState{},
		wgs: map[string]int{}, onces: map[string]bool{}, nondetCount: map[string]int{}, reached: map[string]bool{},
		funcs: map[*ssa.Function]int{}, nativeState: map[string]interface{}{}, redirectsUsed: map[string]int{}}
	sol.BeginPath()
	defer func() {
		if r := recover(); r != nil {
			pe, ok := r.(pathEnd)
			if !ok {
				// engine bug: report as internal error with stack location
				pe = pathEnd{"internal", fmt.Sprintf("engine panic: %v%s", r, p.where())}
				if e.cfg.Verbose {
					fmt.Fprintf(os.Stderr, "engine panic: %v\n", r)
				}
			}
			end = pe
		}
		p.finish(&end, wantSample)
		sol.EndPath()
	}()
	main := &G{id: 0}
	p.gs = []*G{main}
	p.cur = main
	main.frames = append(main.frames, p.newFrame(entry, nil, nil, -1))
	for {
		blocked, _ := p.runG(main, 0)
		if !blocked {
			break
		}
		if main.settleReq {
			p.runOthersToQuiescence()
			main.settleDone = true
			continue
		}
		if !p.runOneOther() {
			desc := "main goroutine blocked forever: " + main.wait
			for _, g := range p.gs[1:] {
				if !g.done {
					desc += fmt.Sprintf("; g%d blocked on %s", g.id, g.wait)
				}
			}
			p.lastFn = nil
			if len(main.frames) > 0 {
				p.lastFn = main.frames[len(main.frames)-1].fn
			}
			return p, pathEnd{"deadlock", desc + p.where()}
		}
	}
	return p, pathEnd{"done", ""}
}

func (p *Path) runOthersToQuiescence() {
	idle := 0 // consecutive rounds in which only sleeping pollers moved
	for {
		progressed, real := false, false
		for i := 1; i < len(p.gs); i++ {
			g := p.gs[i]
			if g.done {
				continue
			}
			if g.napping {
				g.napping, g.napDone = false, true
			}
			_, prog := p.runG(g, 0)
			if prog {
				progressed = true
				if !g.napping {
					real = true
				}
			}
		}
		if !progressed {
			return
		}
		if real {
			idle = 0
		} else if idle++; idle >= 3 {
			return
		}
	}
}

func (p *Path) runOneOther() bool {
	for i := 1; i < len(p.gs); i++ {
		g := p.gs[i]
		if g.done {
			continue
		}
		wasNapping := g.napping
		if g.napping {
			g.napping, g.napDone = false, true
		}
		_, prog := p.runG(g, 0)
		if prog && !(wasNapping && g.napping) {
			return true
		}
	}
	return false
}

type pathSample = PathSummary

func (p *Path) finish(end *pathEnd, wantSample bool) {
	if end.kind != "infeasible" && end.kind != "internal" && end.kind != "unsupported" {
		func() {
			defer func() {
				if r := recover(); r != nil {
					if pe, ok := r.(pathEnd); ok && end.kind == "done" {
						*end = pe
					}
				}
			}()
			p.flushAsserts()
		}()
	}
	switch end.kind {
	case "panic", "fatal", "deadlock", "hang":
		if end.kind == "panic" && p.expectPanic {
			end.kind = "done"
			break
		}
		r, model := p.sol.CheckModel(p.tc.Bool(true), p.nondets)
		if r == "sat" {
			p.addViolation(end.kind, end.kind, end.msg, model)
		} else if r == "unsat" {
			end.kind = "infeasible"
		} else {
			p.inconclusive = append(p.inconclusive, "model for "+end.kind+": solver "+r)
		}
	case "panic-reported", "assert-failed":
		end.kind = "done-violating"
	case "unwind", "unsupported":
		// say which inputs lead here (diagnosis only; the path stays inconclusive)
		if r, model := p.sol.CheckModel(p.tc.Bool(true), p.nondets); r == "sat" {
			end.msg += fmt.Sprintf(" [inputs %v]", cleanModel(model))
		}
	}
	if wantSample && end.kind == "done" && len(p.nondets) > 0 {
		r, model := p.sol.CheckModel(p.tc.Bool(true), p.nondets)
		if r == "sat" {
			var rs []string
			for k := range p.reached {
				rs = append(rs, k)
			}
			sort.Strings(rs)
			p.sample = &PathSummary{End: end.kind, Decisions: len(p.trace), Steps: p.steps, Assignment: cleanModel(model), Reached: rs}
		}
	}
	for i := range p.violations {
		p.violations[i].Assignment = cleanModel(p.violations[i].Assignment)
	}
}

func cleanModel(m map[string]uint64) map[string]uint64 {
	out := map[string]uint64{}
	for k, v := range m {
		k = strings.Trim(k, "|")
		if strings.HasPrefix(k, "probe.") {
			continue
		}
		out[k] = v
	}
	return out
}

// ---------------------------------------------------------------------------
// overlay construction

// buildOverlay maps harness files under harnessDir/<rel>/ to repo/<rel>/ .
// mode "sym" skips *_native.go, mode "native" skips *_sym.go.
// overlayFallbacks: overlay target -> alternative content (harness file X.go with a
// sibling X.go.fallback), filled by buildOverlay.  A fallback replaces a harness file that
// no longer type-checks against the tree under test because it names an unexported field
// or function that a change removed; it offers the same helper functions without them.
var overlayFallbacks = map[string][]byte{}

// useFallbacks: overlay targets (relative to the repository root) for which buildOverlay
// puts the fallback content in place of the primary file.
var useFallbacks = map[string]bool{}

func buildOverlay(repoDir, harnessDir string, sets []string, mode string) (map[string][]byte, []string, error) {
	ov := map[string][]byte{}
	var pkgsWithRT []string
	rtTmpl, err := os.ReadFile(filepath.Join(harnessDir, "_rt", "zzrt.go.tmpl"))
	if err != nil {
		return nil, nil, err
	}
	for _, set := range sets {
		root := filepath.Join(harnessDir, set)
		err := filepath.Walk(root, func(path string, info os.FileInfo, err error) error {
			if err != nil {
				return err
			}
			if info.IsDir() || !strings.HasSuffix(path, ".go") {
				return nil
			}
			base := filepath.Base(path)
			if mode == "sym" && strings.HasSuffix(base, "_native.go") {
				return nil
			}
			if mode == "native" && strings.HasSuffix(base, "_sym.go") {
				return nil
			}
			rel, _ := filepath.Rel(root, path)
			data, err := os.ReadFile(path)
			if err != nil {
				return err
			}
			target := filepath.Join(repoDir, filepath.Dir(rel), "zz_verif_"+strings.TrimSuffix(base, ".go")+".go")
			if strings.HasSuffix(base, "_test.go") {
				target = filepath.Join(repoDir, filepath.Dir(rel), "zz_verif_"+base)
			}
			if fb, ferr := os.ReadFile(path + ".fallback"); ferr == nil {
				overlayFallbacks[target] = fb
				if rt, _ := filepath.Rel(repoDir, target); useFallbacks[rt] {
					data = fb
				}
			}
			ov[target] = data
			// does this package use the runtime? (marker comment)
			if strings.Contains(string(data), "//zz:rt") {
				pkgDir := filepath.Dir(rel)
				pkgName := packageClause(string(data))
				rtTarget := filepath.Join(repoDir, pkgDir, "zz_verif_rt.go")
				if _, ok := ov[rtTarget]; !ok {
					ov[rtTarget] = []byte(strings.Replace(string(rtTmpl), "package PKG", "package "+pkgName, 1))
					pkgsWithRT = append(pkgsWithRT, pkgDir)
				}
			}
			return nil
		})
		if err != nil {
			return nil, nil, err
		}
	}
	return ov, pkgsWithRT, nil
}

func packageClause(src string) string {
	for _, l := range strings.Split(src, "\n") {
		l = strings.TrimSpace(l)
		if strings.HasPrefix(l, "package ") {
			return strings.Fields(l)[1]
		}
	}
	return "main"
}

func envOr(k, d string) string {
	if v := os.Getenv(k); v != "" {
		return v
	}
	return d
}

// defaultSolver: z3 5.1 (z3-new) when present — markedly faster on these
// incremental bit-vector queries — else the system z3 4.8.12.
func defaultSolver() string {
	if p, err := exec.LookPath("z3-new"); err == nil && p != "" {
		return "z3-new"
	}
	return "z3"
}
