package main

import (
	"fmt"
	"go/types"
	"strconv"
	"strings"

	"golang.org/x/tools/go/ssa"
)

// Value is one of:
//
//	*Term (int/bool scalar), StrV, FloatV, *Ptr, SliceV, *MapObj, IfaceV, *FuncV,
//	*ChanObj, StructV, ArrayV, TupleV, *NativeV, *RangeIter
type Value interface{}

type FloatV float64

const (
	strConc = iota
	strEnum
	strDec
	strOpaque
)

type StrV struct {
	kind int
	s    string   // concrete content (strConc) or description (strOpaque)
	pool []string // strEnum
	idx  *Term    // strEnum: 32-bit index into pool
	dec  *Term    // strDec: 64-bit signed value rendered in decimal
	id   int      // strOpaque identity
}

func conc(s string) StrV { return StrV{kind: strConc, s: s} }

type Obj struct {
	id  int
	v   Value
	typ types.Type
	tag string
}

type PathElem struct {
	idx int   // concrete field or element index
	sym *Term // symbolic element index (64-bit), nil if concrete
	n   int   // number of elements for a symbolic index
}

type Ptr struct {
	obj  *Obj
	path []PathElem
}

func (p *Ptr) String() string {
	if p == nil {
		return "nil"
	}
	var sb strings.Builder
	fmt.Fprintf(&sb, "&o%d", p.obj.id)
	for _, e := range p.path {
		if e.sym != nil {
			fmt.Fprintf(&sb, "[%s]", e.sym)
		} else {
			fmt.Fprintf(&sb, ".%d", e.idx)
		}
	}
	return sb.String()
}

func (p *Ptr) key() string {
	var sb strings.Builder
	sb.WriteString(strconv.Itoa(p.obj.id))
	for _, e := range p.path {
		sb.WriteByte('.')
		if e.sym != nil {
			sb.WriteString("s" + strconv.Itoa(e.sym.id))
		} else {
			sb.WriteString(strconv.Itoa(e.idx))
		}
	}
	return sb.String()
}

func (p *Ptr) extend(e PathElem) *Ptr {
	np := make([]PathElem, len(p.path)+1)
	copy(np, p.path)
	np[len(p.path)] = e
	return &Ptr{obj: p.obj, path: np}
}

type SliceV struct {
	base *Ptr // pointer to an ArrayV; nil for the nil slice
	off  int
	ln   int
	cp   int
}

type MapObj struct {
	id    int
	keys  []Value
	vals  []Value
	index map[string]int
	live  []bool
	n     int
	ktyp  types.Type
	vtyp  types.Type
}

type IfaceV struct {
	t types.Type // dynamic type; nil for the nil interface
	v Value
}

type FuncV struct {
	fn     *ssa.Function
	bind   []Value
	native string // builtin or native name
	recv   Value  // bound receiver for native method values
	hasRcv bool
	sig    *types.Signature // for no-op methods of native interface values
}

type ChanObj struct {
	id     int
	cap    int
	q      []Value
	closed bool
	etyp   types.Type
	// rendezvous for unbuffered channels: pending senders
	senders []*pendingSend
}

type pendingSend struct {
	g    *G
	v    Value
	done bool
}

type StructV struct{ f []Value }
type ArrayV struct{ e []Value }
type TupleV []Value

// NativeV wraps a native Go value (regexp, error object, opaque collector).
type NativeV struct {
	kind string
	v    interface{}
	id   int
}

// error values produced by natives (errors.New, fmt.Errorf, io.EOF, ...)
type ErrObj struct {
	id  int
	msg string
	// for errno-like errors
	errno int
}

type RangeIter struct {
	m     *MapObj
	keys  []Value
	pos   int
	str   string
	isStr bool
}

func isNil(v Value) bool {
	switch x := v.(type) {
	case nil:
		return true
	case *Ptr:
		return x == nil
	case SliceV:
		return x.base == nil
	case *MapObj:
		return x == nil
	case IfaceV:
		return x.t == nil
	case *FuncV:
		return x == nil
	case *ChanObj:
		return x == nil
	}
	return false
}

func intWidth(t types.Type) (w int, signed bool, ok bool) {
	b, isb := t.Underlying().(*types.Basic)
	if !isb {
		return 0, false, false
	}
	switch b.Kind() {
	case types.Int8:
		return 8, true, true
	case types.Int16:
		return 16, true, true
	case types.Int32:
		return 32, true, true
	case types.Int64, types.Int, types.UntypedInt, types.UntypedRune:
		return 64, true, true
	case types.Uint8:
		return 8, false, true
	case types.Uint16:
		return 16, false, true
	case types.Uint32:
		return 32, false, true
	case types.Uint64, types.Uint, types.Uintptr:
		return 64, false, true
	}
	return 0, false, false
}

func isBool(t types.Type) bool {
	b, ok := t.Underlying().(*types.Basic)
	return ok && (b.Kind() == types.Bool || b.Kind() == types.UntypedBool)
}
func isString(t types.Type) bool {
	b, ok := t.Underlying().(*types.Basic)
	return ok && (b.Kind() == types.String || b.Kind() == types.UntypedString)
}
func isFloat(t types.Type) bool {
	b, ok := t.Underlying().(*types.Basic)
	return ok && (b.Kind() == types.Float32 || b.Kind() == types.Float64 || b.Kind() == types.UntypedFloat)
}

// scalarElem reports whether values of type t are a single solver term.
func scalarElem(t types.Type) bool {
	if _, _, ok := intWidth(t); ok {
		return true
	}
	return isBool(t)
}

func (p *Path) zero(t types.Type) Value {
	switch u := t.Underlying().(type) {
	case *types.Basic:
		if w, _, ok := intWidth(t); ok {
			return p.tc.Const(w, 0)
		}
		switch {
		case isBool(t):
			return p.tc.Bool(false)
		case isString(t):
			return conc("")
		case isFloat(t):
			return FloatV(0)
		case u.Kind() == types.UnsafePointer:
			return (*Ptr)(nil)
		case u.Kind() == types.UntypedNil:
			return nil
		case u.Kind() == types.Complex128 || u.Kind() == types.Complex64:
			return FloatV(0)
		}
	case *types.Pointer:
		return (*Ptr)(nil)
	case *types.Slice:
		return SliceV{}
	case *types.Map:
		return (*MapObj)(nil)
	case *types.Chan:
		return (*ChanObj)(nil)
	case *types.Signature:
		return (*FuncV)(nil)
	case *types.Interface:
		return IfaceV{}
	case *types.Struct:
		f := make([]Value, u.NumFields())
		for i := range f {
			f[i] = p.zero(u.Field(i).Type())
		}
		return StructV{f}
	case *types.Array:
		n := int(u.Len())
		e := make([]Value, n)
		if n > 0 {
			z := p.zero(u.Elem())
			for i := range e {
				e[i] = z
			}
		}
		return ArrayV{e}
	case *types.Tuple:
		tv := make(TupleV, u.Len())
		for i := range tv {
			tv[i] = p.zero(u.At(i).Type())
		}
		return tv
	}
	p.unsupported("zero value of " + t.String())
	return nil
}

// keyOf gives the canonical map key string for a concrete key value.
func (p *Path) keyOf(v Value) string {
	switch x := v.(type) {
	case *Term:
		if !x.IsConst() {
			p.unsupported("symbolic map key (should have been concretised)")
		}
		return "i" + strconv.FormatUint(x.val, 10)
	case StrV:
		if x.kind != strConc {
			p.unsupported("non-concrete string map key")
		}
		return "s" + x.s
	case *Ptr:
		if x == nil {
			return "pnil"
		}
		return "p" + x.key()
	case IfaceV:
		if x.t == nil {
			return "inil"
		}
		return "I" + x.t.String() + ":" + p.keyOf(x.v)
	case StructV:
		var sb strings.Builder
		sb.WriteString("{")
		for _, f := range x.f {
			sb.WriteString(p.keyOf(f))
			sb.WriteByte(';')
		}
		sb.WriteString("}")
		return sb.String()
	case ArrayV:
		var sb strings.Builder
		sb.WriteString("[")
		for _, f := range x.e {
			sb.WriteString(p.keyOf(f))
			sb.WriteByte(';')
		}
		sb.WriteString("]")
		return sb.String()
	case *ChanObj:
		if x == nil {
			return "cnil"
		}
		return "c" + strconv.Itoa(x.id)
	case FloatV:
		return fmt.Sprintf("f%v", float64(x))
	case *NativeV:
		return "n" + strconv.Itoa(x.id)
	}
	p.unsupported(fmt.Sprintf("map key of kind %T", v))
	return ""
}

func (m *MapObj) get(k string) (Value, bool) {
	if m == nil {
		return nil, false
	}
	i, ok := m.index[k]
	if !ok {
		return nil, false
	}
	return m.vals[i], true
}

func (m *MapObj) set(k string, key, v Value) {
	if i, ok := m.index[k]; ok {
		m.vals[i] = v
		return
	}
	m.index[k] = len(m.keys)
	m.keys = append(m.keys, key)
	m.vals = append(m.vals, v)
	m.live = append(m.live, true)
	m.n++
}

func (m *MapObj) del(k string) {
	if m == nil {
		return
	}
	if i, ok := m.index[k]; ok {
		delete(m.index, k)
		m.live[i] = false
		m.n--
	}
}

func (m *MapObj) liveKeys() []Value {
	var ks []Value
	if m == nil {
		return nil
	}
	for i, k := range m.keys {
		if m.live[i] {
			ks = append(ks, k)
		}
	}
	return ks
}

// ---------- pointer load/store over immutable value trees ----------

func (p *Path) load(ptr *Ptr) Value {
	if ptr == nil {
		p.runtimePanic("nil pointer dereference")
	}
	return p.loadPath(ptr.obj.v, ptr.path)
}

func (p *Path) loadPath(v Value, path []PathElem) Value {
	if len(path) == 0 {
		return v
	}
	e := path[0]
	switch x := v.(type) {
	case StructV:
		return p.loadPath(x.f[e.idx], path[1:])
	case ArrayV:
		if e.sym == nil {
			if e.idx < 0 || e.idx >= len(x.e) {
				p.internal(fmt.Sprintf("array index %d out of range %d", e.idx, len(x.e)))
			}
			return p.loadPath(x.e[e.idx], path[1:])
		}
		// symbolic index: ite chain over elements (scalars only)
		var res Value
		n := e.n
		if n > len(x.e) {
			n = len(x.e)
		}
		for i := n - 1; i >= 0; i-- {
			ev := p.loadPath(x.e[i], path[1:])
			if res == nil {
				res = ev
				continue
			}
			c := p.tc.Eq(e.sym, p.tc.Const(64, uint64(i)))
			res = p.iteValue(c, ev, res)
		}
		return res
	}
	p.internal(fmt.Sprintf("loadPath through %T", v))
	return nil
}

func (p *Path) iteValue(c *Term, a, b Value) Value {
	if c.IsTrue() {
		return a
	}
	if c.IsFalse() {
		return b
	}
	switch x := a.(type) {
	case *Term:
		return p.tc.Ite(c, x, b.(*Term))
	case StructV:
		y := b.(StructV)
		f := make([]Value, len(x.f))
		for i := range f {
			f[i] = p.iteValue(c, x.f[i], y.f[i])
		}
		return StructV{f}
	case ArrayV:
		y := b.(ArrayV)
		f := make([]Value, len(x.e))
		for i := range f {
			f[i] = p.iteValue(c, x.e[i], y.e[i])
		}
		return ArrayV{f}
	case StrV:
		y := b.(StrV)
		if x.kind == strConc && y.kind == strConc && x.s == y.s {
			return x
		}
		// build an enum over the union
		ax, ay := p.asEnum(x), p.asEnum(y)
		if ax.kind == strEnum && ay.kind == strEnum {
			pool := append([]string{}, ax.pool...)
			remap := make([]int, len(ay.pool))
			for j, s := range ay.pool {
				found := -1
				for i, t := range pool {
					if t == s {
						found = i
						break
					}
				}
				if found < 0 {
					found = len(pool)
					pool = append(pool, s)
				}
				remap[j] = found
			}
			// y index remapped
			var yi *Term
			for j := len(ay.pool) - 1; j >= 0; j-- {
				k := p.tc.Const(32, uint64(remap[j]))
				if yi == nil {
					yi = k
				} else {
					yi = p.tc.Ite(p.tc.Eq(ay.idx, p.tc.Const(32, uint64(j))), k, yi)
				}
			}
			return StrV{kind: strEnum, pool: pool, idx: p.tc.Ite(c, ax.idx, yi)}
		}
	case *Ptr:
		if y, ok := b.(*Ptr); ok && ((x == nil && y == nil) || (x != nil && y != nil && x.key() == y.key())) {
			return a
		}
	case IfaceV:
		y := b.(IfaceV)
		if x.t == nil && y.t == nil {
			return a
		}
		if x.t != nil && y.t != nil && types.Identical(x.t, y.t) {
			return IfaceV{x.t, p.iteValue(c, x.v, y.v)}
		}
	case FloatV:
		if y, ok := b.(FloatV); ok && x == y {
			return a
		}
	}
	p.unsupported(fmt.Sprintf("ite over values of kind %T / %T", a, b))
	return nil
}

func (p *Path) asEnum(s StrV) StrV {
	if s.kind == strConc {
		return StrV{kind: strEnum, pool: []string{s.s}, idx: p.tc.Const(32, 0)}
	}
	return s
}

func (p *Path) store(ptr *Ptr, v Value) {
	if ptr == nil {
		p.runtimePanic("nil pointer dereference (store)")
	}
	ptr.obj.v = p.storePath(ptr.obj.v, ptr.path, v, nil)
}

func (p *Path) storePath(cur Value, path []PathElem, v Value, guard *Term) Value {
	if len(path) == 0 {
		if guard == nil {
			return v
		}
		return p.iteValue(guard, v, cur)
	}
	e := path[0]
	switch x := cur.(type) {
	case StructV:
		nf := make([]Value, len(x.f))
		copy(nf, x.f)
		nf[e.idx] = p.storePath(x.f[e.idx], path[1:], v, guard)
		return StructV{nf}
	case ArrayV:
		ne := make([]Value, len(x.e))
		copy(ne, x.e)
		if e.sym == nil {
			if e.idx < 0 || e.idx >= len(x.e) {
				p.internal(fmt.Sprintf("array store index %d out of range %d", e.idx, len(x.e)))
			}
			ne[e.idx] = p.storePath(x.e[e.idx], path[1:], v, guard)
			return ArrayV{ne}
		}
		n := e.n
		if n > len(x.e) {
			n = len(x.e)
		}
		for i := 0; i < n; i++ {
			c := p.tc.Eq(e.sym, p.tc.Const(64, uint64(i)))
			g := c
			if guard != nil {
				g = p.tc.And(guard, c)
			}
			if g.IsFalse() {
				continue
			}
			ne[i] = p.storePath(x.e[i], path[1:], v, g)
		}
		return ArrayV{ne}
	}
	p.internal(fmt.Sprintf("storePath through %T", cur))
	return nil
}

func (p *Path) newObj(t types.Type, v Value, tag string) *Obj {
	p.nextObj++
	return &Obj{id: p.nextObj, v: v, typ: t, tag: tag}
}

func (p *Path) newMap(kt, vt types.Type) *MapObj {
	p.nextObj++
	return &MapObj{id: p.nextObj, index: map[string]int{}, ktyp: kt, vtyp: vt}
}

// makeSlice allocates a fresh backing array.
func (p *Path) makeSlice(elem types.Type, ln, cp int) SliceV {
	e := make([]Value, cp)
	if cp > 0 {
		z := p.zero(elem)
		for i := range e {
			e[i] = z
		}
	}
	o := p.newObj(types.NewArray(elem, int64(cp)), ArrayV{e}, "slice")
	return SliceV{base: &Ptr{obj: o}, off: 0, ln: ln, cp: cp}
}

func (p *Path) sliceElems(s SliceV) []Value {
	if s.base == nil || s.ln == 0 {
		return nil
	}
	arr := p.load(s.base).(ArrayV)
	return arr.e[s.off : s.off+s.ln]
}

func (p *Path) sliceGet(s SliceV, i int) Value {
	arr := p.load(s.base).(ArrayV)
	return arr.e[s.off+i]
}

func (p *Path) sliceSet(s SliceV, i int, v Value) {
	p.store(s.base.extend(PathElem{idx: s.off + i}), v)
}

func (p *Path) sliceFromValues(elem types.Type, vs []Value) SliceV {
	s := p.makeSlice(elem, len(vs), len(vs))
	if len(vs) > 0 {
		e := make([]Value, len(vs))
		copy(e, vs)
		s.base.obj.v = ArrayV{e}
	}
	return s
}

// concrete helpers ---------------------------------------------------------

func (p *Path) concInt(v Value, what string) int64 {
	t, ok := v.(*Term)
	if !ok {
		p.internal(fmt.Sprintf("%s: not an int (%T)", what, v))
	}
	if t.IsConst() {
		return t.SVal()
	}
	return p.concretize(t, what)
}

func (p *Path) concStr(v Value, what string) string {
	s, ok := v.(StrV)
	if !ok {
		p.internal(fmt.Sprintf("%s: not a string (%T)", what, v))
	}
	switch s.kind {
	case strConc:
		return s.s
	case strEnum:
		i := p.concretize(s.idx, what)
		return s.pool[i]
	case strDec:
		if s.dec.IsConst() {
			return strconv.FormatInt(s.dec.SVal(), 10)
		}
		return fmt.Sprintf("<dec:%s>", s.dec)
	}
	return "<opaque:" + s.s + ">"
}
