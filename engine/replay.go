package main

import (
	"bytes"
	"encoding/json"
	"fmt"
	"go/ast"
	"go/format"
	"go/parser"
	"go/token"
	"os"
	"os/exec"
	"path/filepath"
	"regexp"
	"strings"
	"time"
)

func cmdReplay(args []string) int {
	if len(args) < 1 {
		fmt.Fprintln(os.Stderr, "usage: gosymx replay <replay.json>")
		return 2
	}
	data, err := os.ReadFile(args[0])
	if err != nil {
		fmt.Fprintln(os.Stderr, err)
		return 2
	}
	var rf ReplayFile
	if err := json.Unmarshal(data, &rf); err != nil {
		fmt.Fprintln(os.Stderr, err)
		return 2
	}
	ok, out := runReplay("/repo", "/verif/harness", rf)
	fmt.Println(out)
	if ok {
		fmt.Printf("REPRODUCED %s:%s in %s\n", rf.Expect.Kind, rf.Expect.ID, rf.Harness)
		return 1
	}
	fmt.Println("NOT REPRODUCED")
	return 0
}

var harnessFuncRe = regexp.MustCompile(`(?m)^func (ZZ_\w+)\(\)`)

// runReplay runs the harness natively against the real build with the
// counterexample's assignment and reports whether the expected failure shows.
func runReplay(repo, hdir string, rf ReplayFile) (bool, string) {
	tmp, err := os.MkdirTemp("/var/tmp", "verif.replay.")
	if err != nil {
		return false, err.Error()
	}
	defer os.RemoveAll(tmp)
	for _, rt := range rf.Fallbacks {
		useFallbacks[rt] = true
	}
	ov, _, err := buildOverlay(repo, hdir, rf.Sets, "native")
	if err != nil {
		return false, err.Error()
	}
	// module path -> directory
	pkgDir := filepath.Join(repo, strings.TrimPrefix(strings.TrimPrefix(rf.Package, modulePrefix), "/"))
	// harness table + test driver
	var names []string
	pkgName := ""
	for target, data := range ov {
		if filepath.Dir(target) != pkgDir {
			continue
		}
		if pkgName == "" {
			pkgName = packageClause(string(data))
		}
		for _, m := range harnessFuncRe.FindAllStringSubmatch(string(data), -1) {
			names = append(names, m[1])
		}
	}
	if pkgName == "" {
		return false, "no harness files for package " + rf.Package
	}
	var tb strings.Builder
	fmt.Fprintf(&tb, "package %s\n\nimport (\n\t\"fmt\"\n\t\"os\"\n\t\"testing\"\n)\n\nvar zzHarnessTable = map[string]func(){\n", pkgName)
	for _, n := range names {
		fmt.Fprintf(&tb, "\t%q: %s,\n", n, n)
	}
	tb.WriteString(`}

func TestZZReplay(t *testing.T) {
	name := os.Getenv("ZZ_HARNESS")
	fn := zzHarnessTable[name]
	if fn == nil {
		fmt.Println("ZZ-NO-HARNESS " + name)
		os.Exit(4)
	}
	defer func() {
		if r := recover(); r != nil {
			if _, ok := r.(zzAssumeFailed); ok {
				fmt.Println("ZZ-DONE assume-failed")
				return
			}
			fmt.Printf("ZZ-PANIC %v\n", r)
			os.Exit(3)
		}
	}()
	fn()
	fmt.Println("ZZ-DONE")
}
`)
	ov[filepath.Join(pkgDir, "zz_verif_replay_test.go")] = []byte(tb.String())
	// native redirects of module functions: rewrite their declaring files
	if rf.Redirects != "" {
		tbl, err := readRedirectTables(hdir, rf.Redirects)
		if err != nil {
			return false, err.Error()
		}
		if err := rewriteRedirects(repo, rf.Package, tbl, ov); err != nil {
			return false, "redirect rewrite: " + err.Error()
		}
		if !rf.NativeEnv {
			if err := rewriteCallSites(repo, append([]string{rf.Package}, rf.RewritePkgs...), tbl, rf.Package, ov); err != nil {
				return false, "call-site rewrite: " + err.Error()
			}
		} else if len(rf.NativeCallsites) > 0 {
			sub := map[string]string{}
			for _, k := range rf.NativeCallsites {
				if v, ok := tbl[k]; ok {
					sub[k] = v
				}
			}
			if err := rewriteCallSites(repo, append([]string{rf.Package}, rf.RewritePkgs...), sub, rf.Package, ov); err != nil {
				return false, "call-site rewrite: " + err.Error()
			}
		}
	}
	// materialise the overlay
	repl := map[string]string{}
	i := 0
	for target, data := range ov {
		i++
		f := filepath.Join(tmp, fmt.Sprintf("f%03d_%s", i, filepath.Base(target)))
		if err := os.WriteFile(f, data, 0644); err != nil {
			return false, err.Error()
		}
		repl[target] = f
	}
	ovj, _ := json.Marshal(map[string]interface{}{"Replace": repl})
	ovFile := filepath.Join(tmp, "overlay.json")
	os.WriteFile(ovFile, ovj, 0644)
	asg, _ := json.Marshal(map[string]interface{}{"assignment": rf.Assignment, "params": rf.Params})
	asgFile := filepath.Join(tmp, "assign.json")
	os.WriteFile(asgFile, asg, 0644)
	// A counterexample found under the engine's cooperative scheduler (background
	// goroutines run when the main one blocks) is replayed with one OS thread first,
	// which is the closest native schedule; other schedules are tried before the
	// counterexample is declared not reproducible.
	var out string
	for _, cpu := range []string{"1", "", "1"} {
		tmo := "90s"
		if rf.Expect.Kind == "hang" {
			tmo = "8s" // a spinning loop may allocate as it goes: keep the demonstration short
		}
		args := []string{"test", "-v", "-vet=off", "-count=1", "-overlay", ovFile, "-run", "^TestZZReplay$", "-timeout", tmo}
		if cpu != "" {
			args = append(args, "-cpu", cpu)
		}
		args = append(args, rf.Package)
		cmd := exec.Command("go", args...)
		cmd.Dir = repo
		cmd.Env = append(os.Environ(), "GOFLAGS=-mod=mod", "GOPROXY=off", "GOSUMDB=off", "GOTOOLCHAIN=local",
			"ZZ_ASSIGN="+asgFile, "ZZ_HARNESS="+rf.Harness, "GOCACHE="+goCacheDir())
		var buf bytes.Buffer
		cmd.Stdout = &buf
		cmd.Stderr = &buf
		done := make(chan error, 1)
		go func() { done <- cmd.Run() }()
		select {
		case <-done:
		case <-time.After(5 * time.Minute):
			if cmd.Process != nil {
				cmd.Process.Kill()
			}
			<-done
		}
		out = buf.String()
		if replayMatches(rf, out) {
			return true, out
		}
	}
	return false, out
}

func goCacheDir() string {
	if c := os.Getenv("GOCACHE"); c != "" {
		return c
	}
	h, _ := os.UserCacheDir()
	return filepath.Join(h, "go-build")
}

func replayMatches(rf ReplayFile, out string) bool {
	switch rf.Expect.Kind {
	case "assert":
		for _, l := range strings.Split(out, "\n") {
			if strings.TrimSpace(l) == "ZZ-ASSERT-FAIL "+rf.Expect.ID {
				return true
			}
		}
		return false
	case "panic":
		return strings.Contains(out, "ZZ-PANIC") || strings.Contains(out, "panic:")
	case "fatal":
		return strings.Contains(out, "level=fatal") || strings.Contains(out, "fatal error:") || strings.Contains(out, "exit status 1")
	case "deadlock":
		return strings.Contains(out, "test timed out") || strings.Contains(out, "all goroutines are asleep")
	case "hang":
		return strings.Contains(out, "test timed out") || strings.Contains(out, "out of memory")
	}
	return false
}

// rewriteRedirects makes redirected module functions call their stub natively:
// the original declaration is renamed <name>ZZOrig and a forwarder takes its place.
func rewriteRedirects(repo, harnessPkg string, tbl map[string]string, ov map[string][]byte) error {
	type rd struct {
		pkgPath, recv, name string
		tgtPkg, tgtName     string
	}
	var rds []rd
	for callee, target := range tbl {
		if strings.HasPrefix(callee, "#") {
			continue
		}
		var r rd
		if strings.HasPrefix(callee, "(") {
			// (*pkg/path.Type).Method or (pkg/path.Type).Method
			end := strings.Index(callee, ")")
			inner := strings.TrimPrefix(callee[1:end], "*")
			dot := strings.LastIndex(inner, ".")
			r.pkgPath, r.recv, r.name = inner[:dot], inner[dot+1:], callee[end+2:]
		} else {
			dot := strings.LastIndex(callee, ".")
			r.pkgPath, r.name = callee[:dot], callee[dot+1:]
		}
		if !strings.HasPrefix(r.pkgPath, modulePrefix) {
			continue // external callee: handled by *_native.go harness variants
		}
		r.tgtPkg, r.tgtName = harnessPkg, target
		if i := strings.LastIndex(target, "."); i >= 0 {
			r.tgtPkg, r.tgtName = target[:i], target[i+1:]
		}
		rds = append(rds, r)
	}
	// group by package directory
	byDir := map[string][]rd{}
	for _, r := range rds {
		dir := filepath.Join(repo, strings.TrimPrefix(strings.TrimPrefix(r.pkgPath, modulePrefix), "/"))
		byDir[dir] = append(byDir[dir], r)
	}
	inits := map[string][][3]string{} // stub package -> (callee package, hook variable, stub)
	defer func() {
		for tgt, list := range inits {
			dir := filepath.Join(repo, strings.TrimPrefix(strings.TrimPrefix(tgt, modulePrefix), "/"))
			var b strings.Builder
			fmt.Fprintf(&b, "package %s\n\n", pkgNameOfDir(dir, ov))
			al := map[string]string{}
			for _, x := range list {
				if _, ok := al[x[0]]; !ok {
					al[x[0]] = fmt.Sprintf("zzhook%d", len(al))
					fmt.Fprintf(&b, "import %s %q\n", al[x[0]], x[0])
				}
			}
			b.WriteString("\nfunc init() {\n")
			for _, x := range list {
				fmt.Fprintf(&b, "\t%s.%s = %s\n", al[x[0]], x[1], x[2])
			}
			b.WriteString("}\n")
			ov[filepath.Join(dir, "zz_verif_redir_init.go")] = []byte(b.String())
		}
	}()
	for dir, list := range byDir {
		ents, err := os.ReadDir(dir)
		if err != nil {
			return err
		}
		for _, ent := range ents {
			if ent.IsDir() || !strings.HasSuffix(ent.Name(), ".go") || strings.HasSuffix(ent.Name(), "_test.go") {
				continue
			}
			path := filepath.Join(dir, ent.Name())
			src, ok := ov[path]
			if !ok {
				src, err = os.ReadFile(path)
				if err != nil {
					return err
				}
			}
			fset := token.NewFileSet()
			f, err := parser.ParseFile(fset, path, src, parser.ParseComments)
			if err != nil {
				return err
			}
			changed := false
			var extra strings.Builder
			imports := map[string]string{}
			for _, d := range f.Decls {
				fd, ok := d.(*ast.FuncDecl)
				if !ok || fd.Body == nil {
					continue
				}
				for _, r := range list {
					if fd.Name.Name != r.name {
						continue
					}
					recvName := ""
					if fd.Recv != nil {
						t := fd.Recv.List[0].Type
						if st, ok := t.(*ast.StarExpr); ok {
							t = st.X
						}
						if id, ok := t.(*ast.Ident); ok {
							recvName = id.Name
						}
					}
					if recvName != r.recv {
						continue
					}
					// build the forwarder
					var sig bytes.Buffer
					var argNames []string
					n := 0
					if fd.Recv != nil {
						if len(fd.Recv.List[0].Names) == 0 || fd.Recv.List[0].Names[0].Name == "_" {
							fd.Recv.List[0].Names = []*ast.Ident{ast.NewIdent("zzrecv")}
						}
						argNames = append(argNames, fd.Recv.List[0].Names[0].Name)
					}
					for _, fld := range fd.Type.Params.List {
						if len(fld.Names) == 0 {
							n++
							fld.Names = []*ast.Ident{ast.NewIdent(fmt.Sprintf("zzp%d", n))}
						}
						for _, nm := range fld.Names {
							if nm.Name == "_" {
								n++
								nm.Name = fmt.Sprintf("zzp%d", n)
							}
							a := nm.Name
							if _, isVar := fld.Type.(*ast.Ellipsis); isVar {
								a += "..."
							}
							argNames = append(argNames, a)
						}
					}
					fwd := &ast.FuncDecl{Recv: fd.Recv, Name: ast.NewIdent(r.name), Type: fd.Type}
					format.Node(&sig, fset, fwd)
					callee := r.tgtName
					if r.tgtPkg != r.pkgPath && pkgImports(repo, ov, r.tgtPkg, r.pkgPath, map[string]bool{}) {
						// the stub's package imports this one: importing it back would be a
						// cycle, so the forwarder goes through a function variable that the
						// stub's package sets from an init function
						hook := "ZZRedir_" + r.recv + "_" + r.name
						ft := &ast.FuncType{Params: &ast.FieldList{}, Results: fd.Type.Results}
						if fd.Recv != nil {
							ft.Params.List = append(ft.Params.List, fd.Recv.List[0])
						}
						ft.Params.List = append(ft.Params.List, fd.Type.Params.List...)
						var tb bytes.Buffer
						format.Node(&tb, fset, ft)
						fmt.Fprintf(&extra, "\nvar %s %s\n", hook, tb.String())
						inits[r.tgtPkg] = append(inits[r.tgtPkg], [3]string{r.pkgPath, hook, r.tgtName})
						callee = hook
					} else if r.tgtPkg != r.pkgPath {
						alias := "zzredir" + sanitize(filepath.Base(r.tgtPkg))
						imports[alias] = r.tgtPkg
						callee = alias + "." + r.tgtName
					}
					ret := "return "
					if fd.Type.Results == nil || len(fd.Type.Results.List) == 0 {
						ret = ""
					}
					fmt.Fprintf(&extra, "\n%s {\n\t%s%s(%s)\n}\n", sig.String(), ret, callee, strings.Join(argNames, ", "))
					fd.Name = ast.NewIdent(r.name + "ZZOrig")
					changed = true
				}
			}
			if !changed {
				continue
			}
			var out bytes.Buffer
			if err := format.Node(&out, fset, f); err != nil {
				return err
			}
			res := out.String()
			if len(imports) > 0 {
				var imp strings.Builder
				for a, p := range imports {
					fmt.Fprintf(&imp, "import %s %q\n", a, p)
				}
				// insert after the package clause
				idx := strings.Index(res, "\npackage ")
				if strings.HasPrefix(res, "package ") {
					idx = 0
				} else {
					idx++
				}
				eol := strings.Index(res[idx:], "\n") + idx
				res = res[:eol+1] + "\n" + imp.String() + res[eol+1:]
			}
			res += extra.String()
			ov[path] = []byte(res)
		}
	}
	return nil
}

// dirFiles lists the non-test Go sources of a module package directory: files on
// disk plus overlay files, overlay contents winning.
func dirFiles(dir string, ov map[string][]byte) map[string][]byte {
	out := map[string][]byte{}
	if ents, err := os.ReadDir(dir); err == nil {
		for _, ent := range ents {
			if ent.IsDir() || !strings.HasSuffix(ent.Name(), ".go") || strings.HasSuffix(ent.Name(), "_test.go") {
				continue
			}
			p := filepath.Join(dir, ent.Name())
			if b, err := os.ReadFile(p); err == nil {
				out[p] = b
			}
		}
	}
	for p, b := range ov {
		if filepath.Dir(p) == dir && strings.HasSuffix(p, ".go") && !strings.HasSuffix(p, "_test.go") {
			out[p] = b
		}
	}
	return out
}

func pkgNameOfDir(dir string, ov map[string][]byte) string {
	for p, b := range dirFiles(dir, ov) {
		f, err := parser.ParseFile(token.NewFileSet(), p, b, parser.PackageClauseOnly)
		if err == nil {
			return f.Name.Name
		}
	}
	return filepath.Base(dir)
}

// pkgImports: does module package from import module package to (transitively)?
func pkgImports(repo string, ov map[string][]byte, from, to string, seen map[string]bool) bool {
	if from == to {
		return true
	}
	if seen[from] || !strings.HasPrefix(from, modulePrefix) {
		return false
	}
	seen[from] = true
	dir := filepath.Join(repo, strings.TrimPrefix(strings.TrimPrefix(from, modulePrefix), "/"))
	for p, b := range dirFiles(dir, ov) {
		f, err := parser.ParseFile(token.NewFileSet(), p, b, parser.ImportsOnly)
		if err != nil {
			continue
		}
		for _, im := range f.Imports {
			ip := strings.Trim(im.Path.Value, "\"")
			if ip == to || pkgImports(repo, ov, ip, to, seen) {
				return true
			}
		}
	}
	return false
}
