package rest

import (
	"net/http"

	"github.com/openebs/jiva/replica"
	"github.com/openebs/jiva/util"
	"github.com/openebs/jiva/zzfs"
)

var zzStates = []string{"initial", "closed", "open", "dirty", "rebuilding", "error", "closed-rebuilding", "closed-dirty"}

type zzHandler struct {
	name   string
	action string
	f      func(s *Server) func(http.ResponseWriter, *http.Request) error
}

var zzHandlers = []zzHandler{
	{"ListReplicas", "", func(s *Server) func(http.ResponseWriter, *http.Request) error { return s.ListReplicas }},
	{"GetReplica", "", func(s *Server) func(http.ResponseWriter, *http.Request) error { return s.GetReplica }},
	{"GetStats", "", func(s *Server) func(http.ResponseWriter, *http.Request) error { return s.GetStats }},
	{"GetVolUsage", "", func(s *Server) func(http.ResponseWriter, *http.Request) error { return s.GetVolUsage }},
	{"GetRebuildInfo", "", func(s *Server) func(http.ResponseWriter, *http.Request) error { return s.GetRebuildInfo }},
	{"DeleteReplica", "", func(s *Server) func(http.ResponseWriter, *http.Request) error { return s.DeleteReplica }},
	{"DeleteVolume", "", func(s *Server) func(http.ResponseWriter, *http.Request) error { return s.DeleteVolume }},
	{"StartReplica", "start", func(s *Server) func(http.ResponseWriter, *http.Request) error { return s.StartReplica }},
	{"ReloadReplica", "reload", func(s *Server) func(http.ResponseWriter, *http.Request) error { return s.ReloadReplica }},
	{"UpdateCloneInfo", "updatecloneinfo", func(s *Server) func(http.ResponseWriter, *http.Request) error { return s.UpdateCloneInfo }},
	{"SnapshotReplica", "snapshot", func(s *Server) func(http.ResponseWriter, *http.Request) error { return s.SnapshotReplica }},
	{"OpenReplica", "open", func(s *Server) func(http.ResponseWriter, *http.Request) error { return s.OpenReplica }},
	{"CloseReplica", "close", func(s *Server) func(http.ResponseWriter, *http.Request) error { return s.CloseReplica }},
	{"Resize", "resize", func(s *Server) func(http.ResponseWriter, *http.Request) error { return s.Resize }},
	{"RemoveDisk", "removedisk", func(s *Server) func(http.ResponseWriter, *http.Request) error { return s.RemoveDisk }},
	{"ReplaceDisk", "replacedisk", func(s *Server) func(http.ResponseWriter, *http.Request) error { return s.ReplaceDisk }},
	{"SetRebuilding", "setrebuilding", func(s *Server) func(http.ResponseWriter, *http.Request) error { return s.SetRebuilding }},
	{"SetLogging", "setlogging", func(s *Server) func(http.ResponseWriter, *http.Request) error { return s.SetLogging }},
	{"Create", "create", func(s *Server) func(http.ResponseWriter, *http.Request) error { return s.Create }},
	{"RevertReplica", "revert", func(s *Server) func(http.ResponseWriter, *http.Request) error { return s.RevertReplica }},
	{"PrepareRemoveDisk", "prepareremovedisk", func(s *Server) func(http.ResponseWriter, *http.Request) error { return s.PrepareRemoveDisk }},
	{"SetRevisionCounter", "setrevisioncounter", func(s *Server) func(http.ResponseWriter, *http.Request) error { return s.SetRevisionCounter }},
	{"SetReplicaMode", "setreplicamode", func(s *Server) func(http.ResponseWriter, *http.Request) error { return s.SetReplicaMode }},
	{"SetCheckpoint", "setcheckpoint", func(s *Server) func(http.ResponseWriter, *http.Request) error { return s.SetCheckpoint }},
}

// C14 (replica): any handler, any server state, any decoded input: no panic, no
// process exit, no lock left held, and a well-formed request is served afterwards.
func ZZ_C14_ReplicaHandlers() {
	state := zzStates[zzConcretize(zzChoice("state", len(zzStates)))]
	rs, _ := replica.ZZServer(state, 3)
	s := NewServer(rs)
	h := zzHandlers[zzConcretize(zzChoice("handler", len(zzHandlers)))]
	zzReadMode = zzConcretize(zzChoice("body", 3))
	util.ZZSetLoggingFails = zzNondetBool("setlogging.fails")
	zzVarID = zzPick("id", "1", "2", "")
	zzAction = h.action
	rw := &zzRW{}
	req := zzRequest()
	viaRouter := h.action != "" && zzNondetBool("via-checkAction")
	var err error
	if viaRouter {
		err = zzViaCheckAction(s, h.f(s), rw, req)
	} else {
		err = h.f(s)(rw, req)
	}
	_ = err
	zzAssert(rs.ZZLockDepth() == 0, "C14.replica."+h.name+".lock-left-held")
	// a well-formed request afterwards is still served
	zzVarID = "1"
	rw2 := &zzRW{}
	err2 := s.GetReplica(rw2, zzRequest())
	zzAssert(err2 == nil, "C14.replica.GetReplica-fails-after-"+h.name)
	zzAssert(rs.ZZLockDepth() == 0, "C14.replica.lock-left-held-after-follow-up")
	zzReach("C14.replica.done")
}

// the same request repeated: capacity wedges
func ZZ_C14_ReplicaRepeat() {
	n := zzParam("REPEAT", 7)
	state := zzStates[1+zzConcretize(zzChoice("state", 4))]
	rs, _ := replica.ZZServer(state, 1)
	s := NewServer(rs)
	hs := []int{7, 8, 12, 11} // StartReplica, ReloadReplica, CloseReplica, OpenReplica
	h := zzHandlers[hs[zzConcretize(zzChoice("handler", len(hs)))]]
	zzReadMode = 0
	zzAction = h.action
	for i := 0; i < n; i++ {
		h.f(s)(&zzRW{}, zzRequest())
		zzAssert(rs.ZZLockDepth() == 0, "C14.replica."+h.name+".lock-left-held-on-repeat")
	}
	zzVarID = "1"
	err := s.GetReplica(&zzRW{}, zzRequest())
	zzAssert(err == nil, "C14.replica.GetReplica-fails-after-repeated-"+h.name)
	zzReach("C14.replica.repeat.done")
}

// two requests in a row: the state the first one leaves behind is the state the
// second arrives in.  After both: no panic, no lock held, the snapshot chain can still
// be walked (GetReplica and every I/O-path status query walk it under the replica
// lock), and a well-formed request is served.
func ZZ_C14_ReplicaPairs() {
	states := []string{"open", "closed", "rebuilding"}
	state := states[zzConcretize(zzChoice("state", zzParam("PAIRSTATES", 1)))]
	rs, _ := replica.ZZServer(state, 2)
	s := NewServer(rs)
	// first request: one that changes the replica's chain, state or mode
	first := []int{8, 9, 10, 11, 12, 13, 14, 15, 16, 18, 19, 20, 22, 23}
	h1 := zzHandlers[first[zzConcretize(zzChoice("first", len(first)))]]
	h2 := zzHandlers[zzConcretize(zzChoice("second", len(zzHandlers)))]
	zzVarID = "1"
	for i, h := range []zzHandler{h1, h2} {
		zzReadMode = zzConcretize(zzChoice("body", 3))
		zzAction = h.action
		h.f(s)(&zzRW{}, zzRequest())
		zzAssert(rs.ZZLockDepth() == 0, "C14.replica.pair.lock-left-held")
		zzAssert(rs.ZZChainAcyclic(), "C14.replica.pair.snapshot-chain-has-a-cycle-after-"+h1.name+"+"+[]string{"", h2.name}[i])
		if !rs.ZZChainAcyclic() {
			return
		}
	}
	zzReadMode = 0
	err := s.GetReplica(&zzRW{}, zzRequest())
	zzAssert(err == nil, "C14.replica.pair.GetReplica-fails-after-"+h1.name+"+"+h2.name)
	zzAssert(rs.ZZLockDepth() == 0, "C14.replica.pair.lock-left-held-after-follow-up")
	zzReach("C14.replica.pair.done")
}

// a request that needs the server's write lock (delete, open, close, snapshot, any set*
// action) arrives while another request is being served: requests hold the server lock
// across file I/O (status reads volume.meta and the revision counter), which is where
// the second one gets to run.  Both must be answered; sync.RWMutex gives the waiting
// writer preference, so a handler that read-locks twice would wedge the replica here.
func ZZ_C14_ReplicaWriterArrives() {
	states := []string{"open", "closed", "dirty"}
	state := states[zzConcretize(zzChoice("state", len(states)))]
	rs, _ := replica.ZZServer(state, 1)
	s := NewServer(rs)
	h := zzHandlers[zzConcretize(zzChoice("handler", len(zzHandlers)))]
	zzReadMode = zzConcretize(zzChoice("body", 3))
	zzVarID = "1"
	zzAction = h.action
	gate := make(chan struct{})
	done := make(chan bool, 1)
	opened := false
	go func() {
		<-gate
		rs.ZZWriteLockUnlock() // what every write-locking request does first
		done <- true
	}()
	zzfs.OnStep = func() {
		if !opened && rs.ZZLockDepth() > 0 {
			opened = true
			close(gate)
			zzYield()
		}
	}
	if h.action != "" && zzNondetBool("via-checkAction") {
		zzViaCheckAction(s, h.f(s), &zzRW{}, zzRequest())
	} else {
		h.f(s)(&zzRW{}, zzRequest())
	}
	zzfs.OnStep = nil
	if !opened {
		close(gate)
	}
	zzSettle()
	zzAssert(len(done) == 1, "C14.replica.writer-request-never-served-after-"+h.name)
	zzAssert(rs.ZZLockDepth() == 0, "C14.replica.lock-left-held-after-"+h.name)
	zzReach("C14.replica.writer-arrives.done")
}
