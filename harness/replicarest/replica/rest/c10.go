package rest

import (
	"github.com/openebs/jiva/replica"
	"github.com/openebs/jiva/types"
	"github.com/openebs/jiva/zzmux"
)

// C10 / C07 (the counter equalisation as the controller's request reaches the replica):
// POST ?action=setrevisioncounter with count N on an open RW replica whose counter is at
// any value - below, at or above N - answered 200 means the replica reports N and a
// reopen finds N; on a replica that is not RW the request is refused and the counter
// stays.
func ZZ_C10_SetCounterHandler() {
	rs, _ := replica.ZZServer("open", 1)
	s := NewServer(rs)
	zzmux.Reset()
	router := NewRouter(s)
	cur := zzNondetInt64("cur")
	n := zzNondetInt64("n")
	zzAssume(zzAnd(cur >= 0, n >= 0))
	zzAssume(rs.ZZSetCounter(cur))
	rw := zzNondetBool("rw")
	if !rw {
		rs.Replica().ZZSetMode(types.WO)
	}
	zzReadMode = 0
	zzFormAction = ""
	zzCounterOverride, zzCounterText = true, zzDecStr(n)
	a := zzRoute(router, s, "POST", "/v1/replicas/1", "setrevisioncounter")
	zzCounterOverride = false
	live, disk := rs.ZZCounters()
	if a.first == "ok" {
		zzReach("C10.rest.setcounter.ok")
		zzAssert(rw, "C10.rest.setcounter-accepted-on-a-replica-that-is-not-RW")
		zzAssert(live == n && disk == n, "C10.rest.setcounter-answered-200-but-the-counter-is-not-the-requested-one")
	} else {
		zzReach("C10.rest.setcounter.refused")
		zzAssert(!rw, "C10.rest.setcounter-refused-on-an-RW-replica")
		zzAssert(live == cur && disk == cur, "C10.rest.refused-setcounter-changed-the-counter")
	}
	zzAssert(rs.ZZLockDepth() == 0, "C10.rest.lock-left-held")
}
