package rest

//zz:rt

import (
	"errors"
	"io"
	"net/http"
	"net/url"

	"github.com/gorilla/mux"
	"github.com/openebs/jiva/util"
	"github.com/rancher/go-rancher/api"
	"github.com/rancher/go-rancher/client"
)

// E-http-handler: what the rancher api framework, gorilla/mux and net/http give a
// handler.  The body decoder has three outcomes: a generic error (malformed,
// truncated, wrongly typed body), io.EOF with the input untouched (empty body), or
// success with the input struct's fields filled from small pools.

type zzURLs struct{}

func (zzURLs) ActionLink(resource client.Resource, name string) string { return "/v1/replicas/1?action=" + name }
func (zzURLs) Current() string                                         { return "/v1" }
func (zzURLs) Collection(resourceType string) string                   { return "/v1/" + resourceType }
func (zzURLs) Link(resource client.Resource, name string) string       { return "/v1/link/" + name }
func (zzURLs) ReferenceLink(resource client.Resource) string           { return "/v1/ref" }
func (zzURLs) ReferenceByIdLink(resourceType string, id string) string { return "/v1/" + resourceType + "/" + id }
func (zzURLs) Version(version string) string                           { return "/" + version }

var (
	zzWritten  []interface{}
	zzErrors   []error
	zzReadMode int // 0 ok, 1 error, 2 EOF
	zzVarID    string
	zzAction   string
)

func zzGetApiContext(r *http.Request) *api.ApiContext {
	return &api.ApiContext{UrlBuilder: zzURLs{}}
}

var zzNames = []string{"volume-snap-a.img", "a", "volume-snap-c.img", "volume-head-000.img", "volume-head-003.img", "nosuch", ""}

func zzName(tag string) string { return zzNames[zzConcretize(zzChoice(tag, len(zzNames)))] }

func zzRead(a *api.ApiContext, obj interface{}) error {
	switch zzReadMode {
	case 1:
		return errors.New("zz: invalid character in request body")
	case 2:
		return io.EOF
	}
	if zzOverride != nil && zzOverride(obj) {
		return nil
	}
	switch in := obj.(type) {
	case *CreateInput:
		in.Size = zzPick("in.size", "", "8192", "-5", "-4096", "junk", "99999999999999999999")
	case *RevertInput:
		in.Name, in.Created = zzName("in.name"), zzPick("in.created", "", "t")
	case *RebuildingInput:
		in.Rebuilding = zzNondetBool("in.rebuilding")
	case *LoggingInput:
		in.LogToFile = util.LogToFile{Enable: zzNondetBool("in.log")}
	case *SnapshotInput:
		in.Name, in.UserCreated, in.Created = zzPick("in.snap", "", "new", "a"), zzNondetBool("in.user"), zzPick("in.created", "", "t")
	case *CloneUpdateInput:
		if zzCloneOverride {
			in.SnapName, in.RevisionCount = zzCloneSnap, zzCloneRev
			return nil
		}
		in.SnapName, in.RevisionCount = zzPick("in.snap", "", "a", "new"), zzPick("in.rev", "", "5", "x")
	case *RemoveDiskInput:
		in.Name = zzName("in.name")
	case *ResizeInput:
		in.Name, in.Size = "vol", zzPick("in.size", "", "16K", "4K", "junk")
	case *ReplaceDiskInput:
		in.Target, in.Source = zzName("in.target"), zzName("in.source")
	case *PrepareRemoveDiskInput:
		in.Name = zzName("in.name")
	case *ReplicaMode:
		in.Mode = zzPick("in.mode", "RW", "WO", "ERR", "")
	case *Checkpoint:
		in.SnapshotName = zzName("in.name")
	case *RevisionCounter:
		if zzCounterOverride {
			in.Counter = zzCounterText
			return nil
		}
		in.Counter = zzPick("in.counter", "", "7", "-1", "x")
	case *Action:
		in.Value = zzPick("in.action", "start", "add", "")
	}
	return nil
}

// the first thing written decides the status the client sees: a body written through
// ApiContext.Write goes out with 200, WriteErr with the error's status, and neither can
// be taken back by whatever is written afterwards.
var zzFirst string // "", "ok", "err", "status"

func zzWrite(a *api.ApiContext, obj interface{}) {
	zzWritten = append(zzWritten, obj)
	if zzFirst == "" {
		zzFirst = "ok"
	}
}
func zzWriteErr(a *api.ApiContext, err error) {
	zzErrors = append(zzErrors, err)
	if zzFirst == "" {
		zzFirst = "err"
	}
}
func zzNewSchema() *client.Schemas { return &client.Schemas{} }
func zzVars(r *http.Request) map[string]string   { return map[string]string{"id": zzVarID} }
func zzQuery(u *url.URL) url.Values              { return url.Values{"action": {zzAction}} }

// zzFormAction: the "action" parameter of a form-encoded request body ("" = the body is
// not a form or does not carry one).  net/http contract: FormValue prefers body
// parameters of POST/PUT/PATCH requests over the URL query; PostFormValue sees only
// the body.  The router dispatches on the URL query alone.
var zzFormAction string

// harness-chosen request bodies
var zzOverride func(obj interface{}) bool

var (
	zzCounterOverride bool
	zzCounterText     string
	zzCloneOverride      bool
	zzCloneSnap, zzCloneRev string
)

func zzFormValue(r *http.Request, key string) string {
	if key == "action" {
		if zzFormAction != "" {
			return zzFormAction
		}
		return zzAction
	}
	return ""
}

func zzPostFormValue(r *http.Request, key string) string {
	if key == "action" {
		return zzFormAction
	}
	return ""
}
type zzRW struct {
	status int
	hdr    http.Header
}

func (w *zzRW) Header() http.Header {
	if w.hdr == nil {
		w.hdr = http.Header{}
	}
	return w.hdr
}
func (w *zzRW) Write(b []byte) (int, error) { return len(b), nil }
func (w *zzRW) WriteHeader(code int) {
	w.status = code
	if zzFirst == "" {
		zzFirst = "status"
	}
}

func zzRequest() *http.Request { return &http.Request{URL: &url.URL{}, RequestURI: "/v1/replicas/1"} }

func zzAsRouter(r interface{}) *mux.Router { return r.(*mux.Router) }
