package rest

import (
	"net/http"
	"net/url"

	"github.com/openebs/jiva/replica"
	"github.com/openebs/jiva/util"
	"github.com/openebs/jiva/zzmux"
)

// every action name the API advertises in some state or routes, an unknown one, none
var zzRouterActions = []string{"start", "reload", "updatecloneinfo", "snapshot", "open", "close", "resize", "removedisk", "replacedisk",
	"setrebuilding", "setlogging", "create", "revert", "prepareremovedisk", "setrevisioncounter", "setreplicamode", "setcheckpoint",
	"setreplicacounter", "updatediskmode", "nosuchaction", ""}

// actions that have a handler behind POST /v1/replicas/{id} (replica/rest/router.go)
var zzRouted = map[string]bool{"start": true, "reload": true, "updatecloneinfo": true, "snapshot": true, "open": true, "close": true,
	"resize": true, "removedisk": true, "replacedisk": true, "setrebuilding": true, "setlogging": true, "create": true, "revert": true,
	"prepareremovedisk": true, "setrevisioncounter": true, "setreplicamode": true, "setcheckpoint": true}

type zzAnswer struct {
	handler bool // the router found a handler
	status  int  // status the router (no handler) or the handler (WriteHeader) set
	first   string
}

// zzRoute sends one request through the route table the real NewRouter builds.
func zzRoute(router interface{}, s *Server, method, path, action string) zzAnswer {
	q := url.Values{}
	if action != "" {
		q["action"] = []string{action}
	}
	zzAction = action
	zzWritten, zzErrors, zzFirst = nil, nil, ""
	h, vars, status := zzmux.Match(zzAsRouter(router), method, path, q)
	if h == nil {
		return zzAnswer{status: status}
	}
	zzVarID = vars["id"]
	rw := &zzRW{}
	req := zzRequest()
	req.Method = method
	zzmux.Serve(h, rw, req)
	return zzAnswer{handler: true, status: rw.status, first: zzFirst}
}

// C14 (replica, through the router): any method, path, action and body in any server
// state: no panic, no lock left held, one answer per request - a request that failed is
// not answered 200 first - and a well-formed request is served afterwards.
// C17 (REST action gate as the router applies it): an action that is not valid in the
// current state is answered 404 without side effects; a valid one reaches its handler.
func ZZ_C14_ReplicaRouter() {
	state := zzStates[zzConcretize(zzChoice("state", len(zzStates)))]
	rs, fs := replica.ZZServer(state, 2)
	s := NewServer(rs)
	zzmux.Reset()
	router := NewRouter(s)
	method := zzPick("method", "POST", "GET", "DELETE", "PUT")
	path := zzPick("path", "/v1/replicas/1", "/v1/replicas/2", "/v1/replicas", "/v1/replicas/1/volusage", "/v1/stats", "/v1/rebuildinfo",
		"/v1/delete", "/ping", "/v1/nosuch", "/v1/replicas/1/")
	// only the POST routes look at the action; elsewhere one unknown action stands for all
	action := zzPick("action.other", "", "close")
	if method == "POST" && (path == "/v1/replicas/1" || path == "/v1/replicas/2") {
		action = zzRouterActions[zzConcretize(zzChoice("action", len(zzRouterActions)))]
	}
	zzReadMode = zzConcretize(zzChoice("body", 3))
	zzFormAction = ""
	util.ZZSetLoggingFails = zzNondetBool("setlogging.fails")
	entries := replica.ZZEntries(fs)
	open := rs.ZZOpen()
	chain := len(rs.ZZChain())
	a := zzRoute(router, s, method, path, action)
	zzAssert(rs.ZZLockDepth() == 0, "C14.replica.router.lock-left-held")
	zzAssert(!(a.first == "ok" && len(zzErrors) > 0), "C14.replica.router.failed-request-answered-200-first:"+method+" "+path+"?action="+action)
	zzAssert(len(zzWritten) <= 1, "C14.replica.router.two-bodies-for-one-request")
	if method == "POST" && (path == "/v1/replicas/1" || path == "/v1/replicas/2") {
		valid := false
		for _, x := range zzAllowed[state] {
			if x == action {
				valid = true
			}
		}
		refused := !a.handler || (a.status == http.StatusNotFound && len(zzWritten) == 0 && len(zzErrors) == 0)
		if !valid {
			zzReach("C17.router.refused")
			zzAssert(refused, "C17.router.action-not-valid-in-state-reached-a-handler:"+state+"/"+action)
			zzAssert(replica.ZZEntries(fs) == entries, "C17.router.refused-action-touched-the-directory")
			zzAssert(rs.ZZOpen() == open && len(rs.ZZChain()) == chain, "C17.router.refused-action-changed-the-replica")
		} else if zzRouted[action] {
			zzReach("C17.router.allowed")
			zzAssert(!refused, "C17.router.valid-action-refused:"+state+"/"+action)
		}
	}
	// afterwards a well-formed request is served
	zzReadMode = 0
	b := zzRoute(router, s, "GET", "/v1/replicas/1", "")
	zzAssert(b.handler && b.first == "ok", "C14.replica.router.GetReplica-not-served-afterwards")
	zzAssert(rs.ZZLockDepth() == 0, "C14.replica.router.lock-left-held-after-follow-up")
	zzReach("C14.replica.router.done")
}
