package rest

import (
	"github.com/openebs/jiva/replica"
	"github.com/openebs/jiva/types"
	"github.com/openebs/jiva/zzmux"
)

func zzSameChain(a, b []string) bool {
	if len(a) != len(b) {
		return false
	}
	for i := range a {
		if a[i] != b[i] {
			return false
		}
	}
	return true
}

// C17 / C12 / C13 (what a replica REST action that is answered 200 has done): each action
// of the management API, sent through the router with a well-formed body to an open RW
// replica with the chain head -> c -> b -> a, has exactly the effect its name promises, on
// the fields of the body it was given - and nothing else about the replica changes.
func ZZ_C17_ActionEffects() {
	rs, fs := replica.ZZServer("open", 3)
	rs.Replica().ZZSetMode(types.RW)
	s := NewServer(rs)
	zzmux.Reset()
	router := NewRouter(s)
	zzReadMode = 0
	zzFormAction = ""
	before := rs.ZZFacts(fs)
	zzAssume(len(before.Chain) == 4)
	act := zzConcretize(zzChoice("action", 8))
	user := zzNondetBool("user")
	names := []string{"snapshot", "revert", "prepareremovedisk", "removedisk", "setcheckpoint", "setreplicamode", "setrebuilding", "resize"}
	zzOverride = func(obj interface{}) bool {
		switch in := obj.(type) {
		case *SnapshotInput:
			in.Name, in.UserCreated, in.Created = "new", user, "t"
		case *RevertInput:
			in.Name, in.Created = "volume-snap-b.img", "t"
		case *PrepareRemoveDiskInput:
			in.Name = "b"
		case *RemoveDiskInput:
			in.Name = "volume-snap-b.img"
		case *Checkpoint:
			in.SnapshotName = "volume-snap-b.img"
		case *ReplicaMode:
			in.Mode = "WO"
		case *RebuildingInput:
			in.Rebuilding = true
		case *ResizeInput:
			in.Name, in.Size = "vol", "16K"
		default:
			return false
		}
		return true
	}
	a := zzRoute(router, s, "POST", "/v1/replicas/1", names[act])
	zzOverride = nil
	zzAssert(a.handler && a.first == "ok", "C17.effects.well-formed-"+names[act]+"-not-answered-200")
	if a.first != "ok" {
		return
	}
	after := rs.ZZFacts(fs)
	want := before
	tag := "C17.effects." + names[act]
	switch act {
	case 0:
		zzAssert(len(after.Chain) == 5 && after.Chain[1] == "volume-snap-new.img" && zzSameChain(after.Chain[2:], before.Chain[1:]), tag+".chain")
		uc, removed, parent, ok := rs.Replica().ZZDiskFlags("volume-snap-new.img")
		zzAssert(ok && uc == user && !removed && parent == before.Chain[1], tag+".flags-of-the-new-snapshot")
		zzAssert(after.Chain[0] != before.Chain[0] && after.DiskHead == after.Chain[0] && after.DiskParent == "volume-snap-new.img", tag+".head")
		want.Chain = after.Chain
	case 1:
		zzAssert(len(after.Chain) == 3 && after.Chain[1] == "volume-snap-b.img" && after.Chain[2] == "volume-snap-a.img", tag+".chain")
		zzAssert(after.DiskHead == after.Chain[0] && after.DiskParent == "volume-snap-b.img", tag+".head")
		want.Chain = after.Chain
		want.Mode = after.Mode // a reverted replica is reopened
	case 2:
		_, removed, _, ok := rs.Replica().ZZDiskFlags("volume-snap-b.img")
		zzAssert(ok && removed, tag+".snapshot-not-marked")
		for _, other := range []string{"volume-snap-a.img", "volume-snap-c.img"} {
			_, r2, _, ok2 := rs.Replica().ZZDiskFlags(other)
			zzAssert(ok2 && !r2, tag+".another-snapshot-marked")
		}
	case 3:
		zzAssert(len(after.Chain) == 3 && after.Chain[0] == before.Chain[0] && after.Chain[1] == "volume-snap-c.img" && after.Chain[2] == "volume-snap-a.img", tag+".chain")
		want.Chain = after.Chain
	case 4:
		want.Checkpoint = "volume-snap-b.img"
	case 5:
		want.Mode = types.WO
	case 6:
		want.Rebuilding = true
	default:
		want.Size = 16384
	}
	zzAssert(zzSameChain(after.Chain, want.Chain), tag+".chain-changed")
	zzAssert(after.Checkpoint == want.Checkpoint && after.DiskCheckpoint == want.Checkpoint, tag+".checkpoint")
	zzAssert(after.Rebuilding == want.Rebuilding && after.DiskRebuilding == want.Rebuilding, tag+".rebuilding")
	zzAssert(after.Mode == want.Mode, tag+".mode")
	zzAssert(after.Size == want.Size && after.DiskSize == want.Size, tag+".size")
	zzAssert(rs.ZZLockDepth() == 0, tag+".lock-left-held")
	zzReach("C17.effects.done")
}
