package rest

import (
	"net/http"

	"github.com/openebs/jiva/replica"
)

// the state/action table of the pinned tree (replica/rest/model.go NewReplica)
var zzAllowed = map[string][]string{
	"initial":    {"start", "create", "resize", "updatecloneinfo"},
	"open":       {"start", "resize", "close", "updatediskmode", "setrebuilding", "setlogging", "snapshot", "reload", "removedisk", "replacedisk", "revert", "prepareremovedisk", "setreplicamode", "setrevisioncounter", "updatecloneinfo", "setreplicacounter", "setcheckpoint"},
	"closed":     {"start", "open", "resize", "removedisk", "replacedisk", "revert", "updatecloneinfo", "prepareremovedisk", "setreplicacounter"},
	"dirty":      {"start", "resize", "setrebuilding", "setlogging", "close", "snapshot", "reload", "removedisk", "replacedisk", "updatediskmode", "revert", "setreplicamode", "prepareremovedisk", "setreplicacounter", "updatecloneinfo", "setcheckpoint"},
	"rebuilding": {"setrebuilding", "setlogging", "close", "reload", "setreplicamode", "setrevisioncounter", "setreplicacounter", "updatecloneinfo", "setcheckpoint"},
	"error":      {},
	// nothing attached: closed, whatever flags volume.meta still carries
	"closed-rebuilding": {"start", "open", "resize", "removedisk", "replacedisk", "revert", "updatecloneinfo", "prepareremovedisk", "setreplicacounter"},
	"closed-dirty":      {"start", "open", "resize", "removedisk", "replacedisk", "revert", "updatecloneinfo", "prepareremovedisk", "setreplicacounter"},
}

var zzActionNames = []string{"start", "reload", "updatecloneinfo", "snapshot", "open", "close", "resize", "removedisk", "replacedisk", "setrebuilding", "setlogging", "create", "revert", "prepareremovedisk", "setrevisioncounter", "setreplicamode", "setcheckpoint", "nosuchaction", ""}

// C17: a REST action that is not valid in the replica's current state is refused
// without side effects; in particular open/create are refused on an open replica.
func ZZ_C17_CheckAction() {
	state := zzStates[zzConcretize(zzChoice("state", len(zzStates)))]
	rs, fs := replica.ZZServer(state, 2)
	s := NewServer(rs)
	zzAction = zzActionNames[zzConcretize(zzChoice("action", len(zzActionNames)))]
	// a form-encoded body may carry its own "action" parameter; the router dispatches on
	// the URL query, so the URL's action alone decides whether the request is valid
	zzFormAction = zzPick("form.action", "", "close", "start", "setlogging", "resize")
	called := false
	t := func(rw http.ResponseWriter, req *http.Request) error { called = true; return nil }
	entries := replica.ZZEntries(fs)
	open := rs.ZZOpen()
	chain := rs.ZZChain()
	rw := &zzRW{}
	err := zzViaCheckAction(s, t, rw, zzRequest())
	zzAssert(err == nil, "C17.checkAction-error")
	want := false
	for _, a := range zzAllowed[state] {
		if a == zzAction {
			want = true
		}
	}
	zzAssert(called == want, "C17.state-action-table-differs:"+state+"/"+zzAction)
	if !called {
		zzReach("C17.rest.refused")
		zzAssert(rw.status == http.StatusNotFound, "C17.refused-action-not-answered-404")
		zzAssert(replica.ZZEntries(fs) == entries, "C17.refused-action-touched-the-directory")
		zzAssert(rs.ZZOpen() == open && len(rs.ZZChain()) == len(chain), "C17.refused-action-changed-the-replica")
	} else {
		zzReach("C17.rest.allowed")
	}
	if state == "open" || state == "dirty" || state == "rebuilding" {
		zzAssert(!(called && (zzAction == "open" || zzAction == "create")), "C17.open-or-create-allowed-on-open-replica")
	}
	zzAssert(rs.ZZLockDepth() == 0, "C17.lock-left-held")
}
