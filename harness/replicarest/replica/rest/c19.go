package rest

import (
	"github.com/openebs/jiva/replica"
	"github.com/openebs/jiva/zzmux"
)

// C19 (the clone-info update as the sync agent's client sees it): POST
// /v1/replicas/1?action=updatecloneinfo answered 200 means the head is rewired to the
// copied snapshot and the revision counter is the recorded one, durably; whenever a
// file-system call fails, the snapshot was not copied or the count is not a number, the
// request is answered with an error status (sync.CloneReplica marks the clone completed
// on a 200).
func ZZ_C19_UpdateCloneInfoHandler() {
	copied := zzNondetBool("snapshot-copied")
	rs, fs := replica.ZZCloneTarget(copied)
	zzAssume(rs != nil)
	s := NewServer(rs)
	zzmux.Reset()
	router := NewRouter(s)
	zzReadMode = 0
	zzFormAction = ""
	rev := zzNondetInt64("rev")
	zzAssume(rev >= 0)
	zzCloneOverride, zzCloneSnap, zzCloneRev = true, zzPick("snap", "new", "nosuch", ""), zzDecStr(rev)
	if zzNondetBool("garbage-rev") {
		zzCloneRev = "12x"
	}
	failAt := zzConcretize(zzChoice("failAt", 21)) // 20 = no failure
	fs.Steps = 0
	if failAt < 20 {
		fs.FailAt = failAt
	}
	a := zzRoute(router, s, "POST", "/v1/replicas/1", "updatecloneinfo")
	zzCloneOverride = false
	failed := fs.Failed
	fs.FailAt = -1
	zzAssert(a.handler, "C19.rest.updatecloneinfo-not-routed")
	ok := a.first == "ok"
	if ok {
		zzReach("C19.rest.updatecloneinfo.ok")
		zzAssert(copied && zzCloneSnap == "new", "C19.rest.updatecloneinfo-accepted-a-snapshot-that-was-not-copied")
		zzAssert(zzCloneRev != "12x", "C19.rest.updatecloneinfo-accepted-a-garbage-revision-count")
		zzAssert(replica.ZZCloneInfoPersisted(fs, zzCloneSnap, rev), "C19.rest.updatecloneinfo-answered-200-without-the-clone-info-persisted")
	} else {
		zzReach("C19.rest.updatecloneinfo.failed")
		zzAssert(a.first == "err" || a.status >= 400, "C19.rest.updatecloneinfo-failure-not-answered-with-an-error-status")
	}
	if failed {
		zzReach("C19.rest.updatecloneinfo.fault")
	}
	zzAssert(rs.ZZLockDepth() == 0, "C19.rest.lock-left-held")
}
