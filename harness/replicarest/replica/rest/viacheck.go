package rest

import "net/http"

// the action gate in front of an action handler (replica/rest/router.go checkAction)
func zzViaCheckAction(s *Server, t func(http.ResponseWriter, *http.Request) error, rw http.ResponseWriter, req *http.Request) error {
	return checkAction(s, t)(rw, req)
}
