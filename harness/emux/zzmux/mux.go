// Package zzmux: E-mux, the model of github.com/gorilla/mux the REST routers are built
// on.  Contract modelled (mux v1.7.4 documentation): routes are tried in registration
// order and the first one whose method, path and query matchers all accept the request
// wins; a path template segment "{name}" accepts any non-empty segment; Queries(k, v)
// accepts a request whose URL query carries key k with first value v ("{name}" as v:
// any value, the key must be present); a route that matches apart from the method
// yields 405 when no later route matches, no route at all yields 404; a router built
// with StrictSlash answers a path differing from a route's only by a trailing slash with
// a redirect (301) and runs no handler.
package zzmux

import (
	"net/http"
	"net/url"
	"strings"

	"github.com/gorilla/mux"
	"github.com/rancher/go-rancher/client"
)

type Route struct {
	key     *mux.Route
	owner   *mux.Router
	Methods []string
	Path    string
	Prefix  string
	Queries []string
	Handler http.Handler
}

var routes []*Route

// Reset forgets every router built so far.
func Reset() { routes = nil }

func find(k *mux.Route) *Route {
	for _, r := range routes {
		if r.key == k {
			return r
		}
	}
	panic("zzmux: unknown route")
}

func add(r *mux.Router) *Route {
	rt := &Route{key: new(mux.Route), owner: r}
	routes = append(routes, rt)
	return rt
}

func NewRouter() *mux.Router                               { return new(mux.Router) }
func StrictSlash(r *mux.Router, v bool) *mux.Router         { return r }
func Methods(r *mux.Router, methods ...string) *mux.Route  { rt := add(r); rt.Methods = methods; return rt.key }
func PathPrefix(r *mux.Router, tpl string) *mux.Route      { rt := add(r); rt.Prefix = tpl; return rt.key }
func RoutePath(k *mux.Route, tpl string) *mux.Route        { find(k).Path = tpl; return k }
func RouteHandler(k *mux.Route, h http.Handler) *mux.Route { find(k).Handler = h; return k }
func RouteQueries(k *mux.Route, pairs ...string) *mux.Route {
	rt := find(k)
	rt.Queries = append(rt.Queries, pairs...)
	return k
}
func Handle(r *mux.Router, path string, h http.Handler) *mux.Route {
	rt := add(r)
	rt.Path, rt.Handler = path, h
	return rt.key
}

func segs(p string) []string { return strings.Split(strings.Trim(p, "/"), "/") }

func pathMatch(tpl, p string) bool {
	a, b := segs(tpl), segs(p)
	if len(a) != len(b) {
		return false
	}
	for i := range a {
		if strings.HasPrefix(a[i], "{") && strings.HasSuffix(a[i], "}") {
			if b[i] == "" {
				return false
			}
			continue
		}
		if a[i] != b[i] {
			return false
		}
	}
	return true
}

// Match: the handler the router dispatches the request to and the variables of the
// matched path template, or the status mux answers with itself (404, 405, 301).
func Match(r *mux.Router, method, path string, q url.Values) (http.Handler, map[string]string, int) {
	status := http.StatusNotFound
	for _, rt := range routes {
		if rt.owner != r {
			continue
		}
		slashOnly := false
		if rt.Prefix != "" {
			if !strings.HasPrefix(path, rt.Prefix) {
				continue
			}
		} else {
			if !pathMatch(rt.Path, path) {
				continue
			}
			slashOnly = strings.HasSuffix(path, "/") != strings.HasSuffix(rt.Path, "/")
		}
		ok := true
		for i := 0; i+1 < len(rt.Queries); i += 2 {
			vs, present := q[rt.Queries[i]]
			want := rt.Queries[i+1]
			if !present || len(vs) == 0 {
				ok = false
			} else if !(strings.HasPrefix(want, "{") && strings.HasSuffix(want, "}")) && vs[0] != want {
				ok = false
			}
		}
		if !ok {
			continue
		}
		if len(rt.Methods) > 0 {
			m := false
			for _, x := range rt.Methods {
				if x == method {
					m = true
				}
			}
			if !m {
				status = http.StatusMethodNotAllowed
				continue
			}
		}
		if slashOnly {
			return nil, nil, http.StatusMovedPermanently
		}
		vars := map[string]string{}
		a, b := segs(rt.Path), segs(path)
		for i := range a {
			if strings.HasPrefix(a[i], "{") && strings.HasSuffix(a[i], "}") && i < len(b) {
				vars[a[i][1:len(a[i])-1]] = b[i]
			}
		}
		return rt.Handler, vars, 0
	}
	return nil, nil, status
}

// a handler of the API framework that is outside every claim (schema listing, metrics)
type Opaque struct{ Name string }

func (Opaque) ServeHTTP(http.ResponseWriter, *http.Request) {}

// the rancher API framework wrappers: ApiHandler builds the per-request context (modelled
// by the E-http-handler stubs) and calls f; the listing handlers are outside every claim.
func ApiHandler(s *client.Schemas, f http.Handler) http.Handler           { return f }
func VersionsHandler(s *client.Schemas, versions ...string) http.Handler { return Opaque{"versions"} }
func VersionHandler(s *client.Schemas, version string) http.Handler      { return Opaque{"version"} }
func SchemasHandler(s *client.Schemas) http.Handler                      { return Opaque{"schemas"} }
func SchemaHandler(s *client.Schemas) http.Handler                       { return Opaque{"schema"} }
func MetricsHandler() http.Handler                                       { return Opaque{"metrics"} }

// Serve runs the handler the way net/http would.
func Serve(h http.Handler, rw http.ResponseWriter, req *http.Request) {
	switch f := h.(type) {
	case http.HandlerFunc:
		f(rw, req)
	case Opaque, *http.ServeMux:
	default:
		h.ServeHTTP(rw, req)
	}
}

// NewSchemas stands in for the REST packages' NewSchema (reflection over the resource
// types; listing only).
func NewSchemas() *client.Schemas { return &client.Schemas{} }
