package sync

import (
	"time"

	"github.com/openebs/jiva/controller/client"
	"github.com/openebs/jiva/replica"
)

// C09 (replica side of the bootstrap): what a replica tells the controller when it
// registers is what the election runs on.  The revision count must be the live one (the
// revision.counter file, through Replica.GetRevisionCounter), not the count recorded in
// volume.meta when the current head was created; the state must be the one the directory
// was left in (a rebuilding replica must say so: the election skips it).

var (
	zzLiveCount, zzHeadCount int64
	zzPrevState              replica.State
	zzRegistered             []zzRegistration
	zzStarted                []string
	zzStartFails             bool
)

type zzRegistration struct {
	address, uuid, state string
	rev                  int64
}

func zzLiveRevisionCounter(r *replica.Replica) int64 { return zzLiveCount }
func zzReplicaInfo(r *replica.Replica) replica.Info {
	return replica.Info{UUID: "uuid-1", RevisionCounter: zzHeadCount}
}
func zzPrevStatus(s *replica.Server) (replica.State, replica.Info) {
	return zzPrevState, replica.Info{UUID: "uuid-1", RevisionCounter: zzHeadCount}
}
func zzRegister(c *client.ControllerClient, address, uuid string, rev int64, rtype string, up time.Duration, state string) error {
	zzRegistered = append(zzRegistered, zzRegistration{address, uuid, state, rev})
	return zzCall("Register")
}
func zzStartVolume(c *client.ControllerClient, replicas ...string) error {
	zzStarted = append(zzStarted, replicas...)
	return zzCall("Start")
}

func ZZ_C09_RegisterPayload() {
	zzSetupPeers([]string{"volume-head-001.img"}, []string{"volume-head-001.img"})
	zzRegistered, zzStarted = nil, nil
	zzVolumeReplicas = 0 // the volume has no replicas: the bootstrap path
	zzLiveCount = zzNondetInt64("live.count")
	zzHeadCount = zzNondetInt64("head.count")
	zzAssume(zzAnd(zzLiveCount >= 1, zzAnd(zzHeadCount >= 1, zzHeadCount < zzLiveCount))) // writes since the head was made
	states := []replica.State{replica.Closed, replica.Dirty, replica.Rebuilding, replica.Initial}
	zzPrevState = states[zzConcretize(zzChoice("prev.state", len(states)))]
	replica.ActionChannel = make(chan string, 5)
	replica.ActionChannel <- "start" // the controller elects this replica
	t := &Task{client: &client.ControllerClient{}}
	err := t.AddReplica(zzDst, &replica.Server{})
	_ = err
	if len(zzRegistered) == 0 {
		zzAssert(zzFailed, "C09.register.no-registration-sent")
		return
	}
	zzReach("C09.register.sent")
	for _, r := range zzRegistered {
		zzAssert(r.rev == zzLiveCount, "C09.register.reported-revision-count-is-not-the-live-counter")
		zzAssert(r.state == string(zzPrevState), "C09.register.reported-state-is-not-the-directory-state")
		zzAssert(r.address == "dst", "C09.register.reported-address-is-not-the-host")
		zzAssert(r.uuid == "uuid-1", "C09.register.reported-uuid-differs")
	}
	if !zzFailed {
		zzReach("C09.register.started")
		zzAssert(len(zzStarted) == 1 && zzStarted[0] == zzDst, "C09.register.elected-replica-did-not-start-the-volume-with-its-address")
	}
}
