package sync

//zz:rt

import (
	"errors"
	"strconv"

	"github.com/openebs/jiva/controller/client"
	"github.com/openebs/jiva/controller/rest"
	"github.com/openebs/jiva/replica"
	replicaClient "github.com/openebs/jiva/replica/client"
	replicaRest "github.com/openebs/jiva/replica/rest"
	"github.com/openebs/jiva/types"
)

// E-rest-client for the rebuild / clone orchestration: every remote call is logged
// and fails nondeterministically (a call either takes effect and succeeds, or fails).

var zzEv []string
var zzFailed bool // some call has failed so far

const zzSrc, zzDst = "tcp://src:9502", "tcp://dst:9502"

type zzPeer struct {
	chain      []string
	checkpoint string
	rev        int64
	disks      map[string]types.DiskInfo
	rebuilding bool
}

var zzPeers map[string]*zzPeer
var zzAddrOf = map[*replicaClient.ReplicaClient]string{}
var zzVolumeReplicas int

var zzMaxFailures = 1000
var zzFailCount int

func zzCall(name string) error {
	if zzFailCount < zzMaxFailures && zzNondetBool("fail."+name) {
		zzFailCount++
		zzEv = append(zzEv, "FAIL "+name)
		zzFailed = true
		return errors.New("zz: " + name + " failed")
	}
	zzEv = append(zzEv, name)
	return nil
}

// --- controller client ---
func zzGetVolume(c *client.ControllerClient) (*rest.Volume, error) {
	if err := zzCall("GetVolume"); err != nil {
		return nil, err
	}
	return &rest.Volume{Name: "vol", ReplicaCount: zzVolumeReplicas}, nil
}
func zzCreateReplica(c *client.ControllerClient, address string) (*rest.Replica, error) {
	if err := zzCall("CreateReplica"); err != nil {
		return nil, err
	}
	return &rest.Replica{Address: address, Mode: "WO"}, nil
}
func zzListReplicas(c *client.ControllerClient) ([]rest.Replica, error) {
	if err := zzCall("ListReplicas"); err != nil {
		return nil, err
	}
	return []rest.Replica{{Address: zzSrc, Mode: "RW"}, {Address: zzDst, Mode: "WO"}}, nil
}
func zzPrepareRebuild(c *client.ControllerClient, address string) (*rest.PrepareRebuildOutput, error) {
	if err := zzCall("PrepareRebuild"); err != nil {
		return nil, err
	}
	return &rest.PrepareRebuildOutput{}, nil
}
func zzVerifyRebuildReplica(c *client.ControllerClient, address string) error {
	return zzCall("VerifyRebuildReplica")
}

// --- replica client ---
func zzNewReplicaClient(address string) (*replicaClient.ReplicaClient, error) {
	rc := &replicaClient.ReplicaClient{}
	zzAddrOf[rc] = address
	return rc, nil
}
func zzGetAddress(c *replicaClient.ReplicaClient) string { return zzAddrOf[c] }
func zzGetReplica(c *replicaClient.ReplicaClient) (replicaRest.Replica, error) {
	var rep replicaRest.Replica
	p := zzPeers[zzAddrOf[c]]
	if p == nil {
		return rep, errors.New("zz: unknown peer")
	}
	if err := zzCall("GetReplica " + zzAddrOf[c]); err != nil {
		return rep, err
	}
	rep.Chain = append([]string{}, p.chain...)
	rep.Checkpoint = p.checkpoint
	rep.RevisionCounter = zzDecStr(p.rev)
	rep.Disks = p.disks
	rep.Rebuilding = p.rebuilding
	return rep, nil
}
func zzSetRebuilding(c *replicaClient.ReplicaClient, rebuilding bool) error {
	if err := zzCall("SetRebuilding " + strconv.FormatBool(rebuilding)); err != nil {
		return err
	}
	zzPeers[zzAddrOf[c]].rebuilding = rebuilding
	return nil
}
func zzReloadReplica(c *replicaClient.ReplicaClient) (replicaRest.Replica, error) {
	return replicaRest.Replica{}, zzCall("ReloadReplica")
}
func zzLaunchReceiver(c *replicaClient.ReplicaClient, to string) (string, int, error) {
	return "dst", 9700, zzCall("LaunchReceiver " + to)
}
func zzSendFile(c *replicaClient.ReplicaClient, from, host string, port int) error {
	return zzCall("SendFile " + from)
}
func zzUpdateCloneInfo(c *replicaClient.ReplicaClient, snap, rev string) (replicaRest.Replica, error) {
	return replicaRest.Replica{}, zzCall("UpdateCloneInfo " + snap + " " + rev)
}

// --- local replica server ---
func zzUpdateLUNMap(s *replica.Server) error        { return zzCall("UpdateLUNMap") }
func zzReplicaSyncDir(r *replica.Replica) error     { return zzCall("SyncDir") }
func zzSetPreload(s *replica.Server, p bool) error  { return nil }
func zzServerReplica(s *replica.Server) *replica.Replica { return &replica.Replica{} }
func zzServerStatus(s *replica.Server) (replica.State, replica.Info) {
	return replica.Closed, replica.Info{}
}
func zzCleaner(t *Task, s *replica.Server, rc *replicaClient.ReplicaClient) {}

func zzIndex(entry string) int {
	for i, e := range zzEv {
		if e == entry {
			return i
		}
	}
	return -1
}

func zzSetupPeers(srcChain, dstChain []string) {
	zzEv = nil
	zzFailed = false
	zzFailCount = 0
	zzMaxFailures = 1000
	zzPeers = map[string]*zzPeer{
		zzSrc: {chain: srcChain, disks: map[string]types.DiskInfo{}},
		zzDst: {chain: dstChain, disks: map[string]types.DiskInfo{}},
	}
	for _, p := range zzPeers {
		for _, d := range p.chain {
			p.disks[d] = types.DiskInfo{Name: d, Size: "4096", RevisionCounter: 7}
		}
	}
}

// C07 (ordering): sync.Task.AddReplica, rebuild path.
func ZZ_C07_AddOrdering() {
	src := []string{"volume-head-002.img", "volume-snap-c.img", "volume-snap-b.img", "volume-snap-a.img"}
	// the rebuilding replica: fresh, or an old member that already holds a prefix
	dsts := [][]string{
		{"volume-head-001.img", "volume-snap-c.img"},
		{"volume-head-001.img", "volume-snap-c.img", "volume-snap-a.img"},
		{"volume-head-004.img", "volume-snap-c.img", "volume-snap-b.img", "volume-snap-a.img"},
	}
	dst := dsts[zzConcretize(zzChoice("dst.chain", len(dsts)))]
	zzSetupPeers(src, dst)
	zzPeers[zzSrc].rev = zzNondetInt64("rev.src")
	zzPeers[zzDst].rev = zzNondetInt64("rev.dst")
	zzPeers[zzDst].checkpoint = zzPick("dst.checkpoint", "", "volume-snap-a.img", "volume-snap-b.img", "volume-snap-zz.img")
	zzVolumeReplicas = 2
	t := &Task{client: &client.ControllerClient{}}
	s := &replica.Server{}
	err := t.AddReplica(zzDst, s)

	verify := zzIndex("VerifyRebuildReplica")
	verifyTried := verify >= 0 || zzIndex("FAIL VerifyRebuildReplica") >= 0
	if verifyTried {
		zzReach("C07.order.verify-requested")
		v := verify
		if v < 0 {
			v = zzIndex("FAIL VerifyRebuildReplica")
		}
		// nothing failed before promotion was requested
		for i := 0; i < v; i++ {
			zzAssert(len(zzEv[i]) < 5 || zzEv[i][:5] != "FAIL ", "C07.order.verify-requested-after-a-failed-step")
		}
		need := []string{"CreateReplica", "SetRebuilding true", "PrepareRebuild", "ReloadReplica", "SyncDir", "UpdateLUNMap"}
		last := -1
		for _, n := range need {
			k := zzIndex(n)
			zzAssert(k >= 0 && k < v, "C07.order.verify-requested-before-"+n)
			zzAssert(k > last, "C07.order.steps-out-of-order-at-"+n)
			last = k
		}
		// which snapshots had to be copied: everything newer than the rebuilding
		// replica's checkpoint in the source chain, unless counters and chains agree
		cp := zzPeers[zzDst].checkpoint
		upto := len(src)
		for i, n := range src {
			if cp != "" && n == cp && upto == len(src) {
				upto = i
			}
		}
		srcCmp, dstCmp := src[1:upto], dst[1:]
		if cp != "" {
			for i, n := range dst {
				if n == cp {
					dstCmp = dst[1:i]
				}
			}
		}
		same := len(srcCmp) == len(dstCmp)
		if same {
			for i := range srcCmp {
				if srcCmp[i] != dstCmp[i] {
					same = false
				}
			}
		}
		skipAllowed := zzAnd(same, zzPeers[zzSrc].rev == zzPeers[zzDst].rev)
		reload := zzIndex("ReloadReplica")
		prev := -1
		for i := len(srcCmp) - 1; i >= 0; i-- { // oldest first
			d := srcCmp[i]
			k1, k2 := zzIndex("SendFile "+d), zzIndex("SendFile "+d+".meta")
			copied := k1 >= 0 && k2 > k1 && k2 < reload
			zzAssert(zzOr(skipAllowed, copied), "C07.order.promotion-requested-without-copying-"+d)
			if k1 >= 0 {
				zzReach("C07.order.copied")
				zzAssert(k1 > prev, "C07.order.snapshots-not-copied-oldest-first")
				zzAssert(zzIndex("LaunchReceiver "+d) >= 0 && zzIndex("LaunchReceiver "+d) < k1, "C07.order.send-before-receiver")
				prev = k2
			}
		}
	}
	done := zzIndex("SetRebuilding false")
	if done >= 0 {
		zzAssert(verify >= 0 && verify < done, "C07.order.rebuilding-cleared-before-verification")
	}
	if zzFailed {
		zzReach("C07.order.failed")
		zzAssert(err != nil, "C07.order.failure-swallowed")
		zzAssert(done < 0, "C07.order.rebuilding-cleared-after-a-failure")
	} else if err == nil {
		zzReach("C07.order.ok")
		zzAssert(verify >= 0 && done > verify, "C07.order.success-without-verification")
	}
}

func zzCreateTempReplica(s *replica.Server) (*replica.Replica, error) { return &replica.Replica{}, nil }
func zzCreateTempServer(s *replica.Server) (*replica.Server, error)  { return &replica.Server{}, nil }

func zzNewControllerClient(url string) *client.ControllerClient { return &client.ControllerClient{} }

// C19 (iii): sync.Task.CloneReplica returns nil only after every file from the
// snapshot downward was copied (oldest first), the clone info was written, the
// replica reloaded, its block map rebuilt and rebuilding cleared — in that order.
func ZZ_C19_CloneOrdering() {
	src := []string{"volume-head-002.img", "volume-snap-c.img", "volume-snap-b.img", "volume-snap-a.img"}
	zzSetupPeers(src, []string{"volume-head-000.img"})
	zzMaxFailures = 2
	snap := zzConcStr(zzPick("snap", "c", "b", "a", "zz"))
	t := &Task{client: &client.ControllerClient{}}
	s := &replica.Server{}
	err := t.CloneReplica(s, "http://src:9501", zzDst, "src", snap)
	if snap == "zz" {
		zzAssert(err != nil, "C19.clone-of-unknown-snapshot-succeeded")
		return
	}
	if err != nil {
		zzReach("C19.clone.failed")
		return
	}
	zzReach("C19.clone.ok")
	// the last attempt (after the last failed sync, if any) must be complete
	start := 0
	for i, e := range zzEv {
		if len(e) > 5 && e[:5] == "FAIL " {
			start = i + 1
		}
	}
	idx := func(entry string) int {
		for i := start; i < len(zzEv); i++ {
			if zzEv[i] == entry {
				return i
			}
		}
		return -1
	}
	from := 0
	for i, n := range src {
		if n == "volume-snap-"+snap+".img" {
			from = i
		}
	}
	prev := idx("SetRebuilding true")
	zzAssert(prev >= 0, "C19.clone-copied-without-marking-rebuilding")
	for i := len(src) - 1; i >= from; i-- {
		d := src[i]
		k1, k2 := idx("SendFile "+d), idx("SendFile "+d+".meta")
		zzAssert(k1 > prev && k2 > k1, "C19.clone-completed-without-copying-"+d)
		prev = k2
	}
	for _, n := range []string{"UpdateCloneInfo " + snap + " 7", "ReloadReplica", "UpdateLUNMap", "SetRebuilding false"} {
		k := idx(n)
		zzAssert(k > prev, "C19.clone-step-missing-or-out-of-order:"+n)
		prev = k
	}
}
