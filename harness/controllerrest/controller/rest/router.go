package rest

import (
	"net/http"
	"net/url"

	"github.com/gorilla/mux"
	"github.com/openebs/jiva/controller"
	"github.com/openebs/jiva/zzmux"
)

type zzAnswer struct {
	handler bool
	status  int
	first   string
}

func zzRoute(router *mux.Router, method, path, action string) zzAnswer {
	q := url.Values{}
	if action != "" {
		q["action"] = []string{action}
	}
	zzWritten, zzErrors, zzFirst = nil, nil, ""
	h, vars, status := zzmux.Match(router, method, path, q)
	if h == nil {
		return zzAnswer{status: status}
	}
	zzVarID = vars["id"]
	rw := &zzRW{}
	req := zzRequest()
	req.Method = method
	zzmux.Serve(h, rw, req)
	return zzAnswer{handler: true, status: rw.status, first: zzFirst}
}

// zzAccepted: the request reached a handler and was answered with success (a body, or -
// DELETE replica - nothing but the implicit 200)
func zzAccepted(a zzAnswer) bool {
	return a.handler && len(zzErrors) == 0 && a.first != "err" && a.status < 400
}

var zzCtlActions = []string{"", "start", "shutdown", "snapshot", "revert", "resize", "setlogging", "deleteSnapshot", "preparerebuild", "verifyrebuild", "nosuchaction"}

// C14 (controller, through the router): any method, path, action, id and body in any
// quiescent controller state, with or without a witness replica attached: no panic in
// the handler or in a goroutine it starts, no lock left held, a request that failed is
// not answered 200 first, and well-formed requests are served afterwards.
func ZZ_C14_ControllerRouter() {
	rf := zzParam("RF", 2)
	method := zzPick("method", "POST", "GET", "DELETE", "PUT")
	id := zzPick("id", EncodeID("vol"), "vol", EncodeID(controller.ZZAddr(0)), EncodeID(controller.ZZAddr(rf)), EncodeID("tcp://nowhere:9502"), "!!notbase64")
	path := zzPick("path", "/v1/volumes/{id}", "/v1/volumes", "/v1/replicas/{id}", "/v1/replicas", "/v1/quorumreplicas", "/v1/register",
		"/v1/stats", "/v1/checkpoint", "/v1/journal", "/v1/delete", "/timeout", "/v1/nosuch", "/v1/volumes/{id}/")
	action := zzCtlActions[zzConcretize(zzChoice("action", len(zzCtlActions)))]
	if path == "/v1/volumes/{id}" || path == "/v1/volumes/{id}/" {
		path = "/v1/volumes/" + id + path[len("/v1/volumes/{id}"):]
	} else if path == "/v1/replicas/{id}" {
		path = "/v1/replicas/" + id
	} else {
		zzAssume(id == EncodeID("vol")) // the id is part of these two paths only
	}
	// routing does not depend on the controller's state: requests no route takes are
	// answered by the router itself
	zzmux.Reset()
	probe := NewRouter(NewServer(controller.ZZEmptyController(rf)))
	if h, _, st := zzmux.Match(probe, method, path, url.Values{"action": {action}}); h == nil {
		zzAssert(st == http.StatusNotFound || st == http.StatusMethodNotAllowed || st == http.StatusMovedPermanently, "C14.controller.router.unrouted-request-not-answered-with-an-error-status")
		zzReach("C14.controller.router.unrouted")
		return
	}
	c := controller.ZZSymbolicControllerLite(rf)
	witness := zzNondetBool("witness")
	if witness {
		zzAssume(controller.ZZAttachWitness(c))
		zzSettle()
	}
	s := NewServer(c)
	zzmux.Reset()
	router := NewRouter(s)
	zzReadMode = zzConcretize(zzChoice("body", 3))
	a := zzRoute(router, method, path, action)
	zzAssert(a.handler, "C14.controller.router.routing-depends-on-state")
	zzAssert(c.ZZLockDepth() == 0, "C14.controller.router.lock-left-held")
	zzSettle()
	zzAssert(c.ZZLockDepth() == 0, "C14.controller.router.lock-left-held-after-settling")
	zzAssert(!(a.first == "ok" && len(zzErrors) > 0), "C14.controller.router.failed-request-answered-200-first:"+method+" "+path+"?action="+action)
	if !witness && action != "shutdown" {
		// (with a witness the write quorum is taken over RF+1 members by design, which the
		// data-replica form of the invariant does not describe; a volume that was shut down
		// keeps its last status fields and checkpoint, has no backend and serves nothing)
		c.ZZCheckMembership("C14.controller.router.membership")
	}
	// afterwards well-formed requests are still served
	zzReadMode = 0
	b := zzRoute(router, "GET", "/v1/volumes/"+EncodeID("vol"), "")
	zzAssert(b.handler && b.first == "ok", "C14.controller.router.GetVolume-not-served-afterwards")
	l := zzRoute(router, "GET", "/v1/replicas", "")
	zzAssert(l.handler && l.first == "ok", "C14.controller.router.ListReplicas-not-served-afterwards")
	zzAssert(c.ZZLockDepth() == 0, "C14.controller.router.lock-left-held-after-follow-up")
	zzReach("C14.controller.router.done")
}

type zzReq struct{ method, path, action string }

// C18 / C03 through the REST API: two requests in a row, the second arriving before the
// background work of the first (the monitor reaping a replica marked ERR, a detach) has
// run.  After everything settled the membership bookkeeping is consistent (distinct
// addresses, backends = replicas, reader/writer indexes, writable only with a quorum of
// RW replicas), no lock is held and the API answers.
func ZZ_C18_RestPairs() {
	rf := zzParam("RF", 2)
	c := controller.ZZSymbolicControllerLite(rf)
	s := NewServer(c)
	zzmux.Reset()
	router := NewRouter(s)
	vol := "/v1/volumes/" + EncodeID("vol")
	rep := "/v1/replicas/" + EncodeID(controller.ZZAddr(zzConcretize(zzChoice("victim", rf))))
	first := []zzReq{{"PUT", rep, ""}, {"DELETE", rep, ""}, {"POST", vol, "snapshot"}, {"POST", "/v1/replicas", ""}, {"POST", rep, "verifyrebuild"}}
	second := []zzReq{{"DELETE", vol, "deleteSnapshot"}, {"POST", vol, "snapshot"}, {"POST", vol, "revert"}, {"POST", vol, "resize"}, {"GET", "/v1/replicas", ""},
		{"GET", "/v1/stats", ""}, {"PUT", rep, ""}, {"DELETE", rep, ""}, {"POST", "/v1/replicas", ""}, {"POST", rep, "preparerebuild"}, {"POST", rep, "verifyrebuild"}, {"POST", "/v1/delete", ""}}
	r1 := first[zzConcretize(zzChoice("first", len(first)))]
	r2 := second[zzConcretize(zzChoice("second", len(second)))]
	zzReadMode = 0
	a1 := zzRoute(router, r1.method, r1.path, r1.action)
	a2 := zzRoute(router, r2.method, r2.path, r2.action)
	zzAssert(a1.handler && a2.handler, "C18.rest.pairs.not-routed")
	zzSettle()
	c.ZZCheckMembership("C18.rest.pairs")
	l := zzRoute(router, "GET", "/v1/replicas", "")
	zzAssert(l.handler && l.first == "ok", "C18.rest.pairs.ListReplicas-not-served-afterwards")
	zzReach("C18.rest.pairs.done")
}

// C18 / C13 / C16 (what a controller REST request that is answered 200 has done): each
// request of the management API, sent through the router with a well-formed body to a
// healthy volume (RF replicas RW), has exactly the effect its name promises on the
// volume or replica its path and body name.
func ZZ_C18_ControllerActionEffects() {
	rf := zzParam("RF", 2)
	c := controller.ZZHealthyController(rf)
	s := NewServer(c)
	zzmux.Reset()
	router := NewRouter(s)
	zzReadMode = 0
	vol := "/v1/volumes/" + EncodeID("vol")
	victim := zzConcretize(zzChoice("victim", rf))
	rep := "/v1/replicas/" + EncodeID(controller.ZZAddr(victim))
	act := zzConcretize(zzChoice("action", 6))
	zzOverride = func(obj interface{}) bool {
		switch in := obj.(type) {
		case *SnapshotInput:
			in.Name = "s9"
		case *RevertInput:
			in.Name = "a"
		case *ResizeInput:
			in.Name, in.Size = "vol", "2M"
		case *Replica:
			if act == 4 {
				in.Address, in.Mode = controller.ZZAddr(victim), "ERR"
			} else {
				in.Address = controller.ZZAddr(rf)
			}
		default:
			return false
		}
		return true
	}
	var a zzAnswer
	switch act {
	case 0:
		a = zzRoute(router, "POST", vol, "snapshot")
	case 1:
		a = zzRoute(router, "POST", vol, "revert")
	case 2:
		a = zzRoute(router, "POST", vol, "resize")
	case 3:
		a = zzRoute(router, "DELETE", rep, "")
	case 4:
		a = zzRoute(router, "PUT", rep, "")
	default:
		a = zzRoute(router, "DELETE", rep, "") // make room, then add the spare address
		zzSettle()
		zzAssert(zzAccepted(a), "C18.effects.delete-before-add-refused")
		a = zzRoute(router, "POST", "/v1/replicas", "")
	}
	zzOverride = nil
	zzSettle()
	tag := []string{"snapshot", "revert", "resize", "delete-replica", "update-replica", "create-replica"}[act]
	zzAssert(zzAccepted(a), "C18.effects.well-formed-"+tag+"-not-answered-200")
	if !zzAccepted(a) {
		return
	}
	for i := 0; i < rf; i++ {
		m := controller.ZZModel(i)
		isVictim := i == victim
		switch act {
		case 0:
			zzAssert(len(m.Snapshots) == 1 && m.Snapshots[0] == "s9", "C18.effects.snapshot-not-taken-under-the-requested-name-on-every-replica")
		case 1:
			zzAssert(len(m.RevertedTo) == 1 && m.RevertedTo[0] == "volume-snap-a.img", "C18.effects.revert-not-to-the-requested-snapshot-on-every-replica")
		case 2:
			zzAssert(len(m.ResizeTo) == 1 && m.ResizeTo[0] == "2M", "C18.effects.resize-not-sent-with-the-requested-size")
		case 3, 4:
			if isVictim {
				zzAssert(c.ZZModeOf(i) == "", "C18.effects."+tag+".named-replica-still-a-member")
			} else {
				zzAssert(c.ZZModeOf(i) == "RW", "C18.effects."+tag+".another-replica-affected")
			}
		default:
			if !isVictim {
				zzAssert(c.ZZModeOf(i) == "RW", "C18.effects."+tag+".another-replica-affected")
			}
		}
	}
	if act == 2 {
		zzAssert(c.ZZSize() == 2<<20, "C18.effects.resize.volume-size-not-the-requested-one")
	}
	if act == 5 {
		zzAssert(c.ZZModeOf(rf) == "WO", "C18.effects.create-replica.requested-address-not-attached-write-only")
	}
	c.ZZCheckMembership("C18.effects." + tag)
	zzReach("C18.effects.done")
}
