package rest

//zz:rt

import (
	"errors"
	"io"
	"net/http"
	"net/url"

	"github.com/openebs/jiva/controller"
	"github.com/openebs/jiva/util"
	"github.com/rancher/go-rancher/api"
	"github.com/rancher/go-rancher/client"
)

// E-http-handler for the controller API (see replica/rest harness).

type zzURLs struct{}

func (zzURLs) ActionLink(resource client.Resource, name string) string { return "/v1/x?action=" + name }
func (zzURLs) Current() string                                         { return "/v1" }
func (zzURLs) Collection(resourceType string) string                   { return "/v1/" + resourceType }
func (zzURLs) Link(resource client.Resource, name string) string       { return "/v1/link/" + name }
func (zzURLs) ReferenceLink(resource client.Resource) string           { return "/v1/ref" }
func (zzURLs) ReferenceByIdLink(resourceType string, id string) string { return "/v1/" + resourceType + "/" + id }
func (zzURLs) Version(version string) string                           { return "/" + version }

var (
	zzWritten  []interface{}
	zzReadMode int // 0 ok, 1 error, 2 EOF
	zzVarID    string
	// registration body fixed by a harness (RevCount may be a symbolic decimal string)
	zzRegOverride     bool
	zzRegHost, zzRegRev string
	// the snapshot input most recently decoded (its Name stays symbolic)
	zzLastSnapName *SnapshotInput
)

// harness-chosen request bodies
var zzOverride func(obj interface{}) bool

func zzGetApiContext(r *http.Request) *api.ApiContext { return &api.ApiContext{UrlBuilder: zzURLs{}} }

func zzAddrPick(tag string) string {
	return zzPick(tag, controller.ZZAddr(0), controller.ZZAddr(1), controller.ZZAddr(3), "tcp://nowhere:9502", "garbage", "")
}

func zzRead(a *api.ApiContext, obj interface{}) error {
	switch zzReadMode {
	case 1:
		return errors.New("zz: invalid character in request body")
	case 2:
		return io.EOF
	}
	if zzOverride != nil && zzOverride(obj) {
		return nil
	}
	switch in := obj.(type) {
	case *SnapshotInput:
		in.Name = zzPick("in.snap", "", "new", "a")
		zzLastSnapName = in
	case *RevertInput:
		in.Name = zzPick("in.snap", "", "a", "zz")
	case *ResizeInput:
		in.Name, in.Size = zzPick("in.vol", "vol", "other"), zzPick("in.size", "", "2M", "512K", "junk")
	case *LoggingInput:
		in.LogToFile = util.LogToFile{Enable: zzNondetBool("in.log")}
	case *JournalInput:
		in.Limit = zzChoice("in.limit", 3) - 1
	case *StartInput:
		n := zzConcretize(zzChoice("in.nreplicas", 3))
		for i := 0; i < n; i++ {
			in.Replicas = append(in.Replicas, zzAddrPick("in.replica"))
		}
	case *RegReplica:
		in.Address = zzPick("in.host", "h1", "h4", "")
		in.UUID = zzPick("in.uuid", "", "u1")
		in.RevCount = zzPick("in.rev", "", "5", "x")
		in.RepType = zzPick("in.type", "Backend", "quorum", "")
		in.RepState = zzPick("in.state", "closed", "rebuilding", "")
		if zzRegOverride {
			in.Address, in.UUID, in.RevCount, in.RepType, in.RepState = zzRegHost, "u-"+zzRegHost, zzRegRev, "Backend", "closed"
		}
	case *Replica:
		in.Address = zzAddrPick("in.address")
		in.Mode = zzPick("in.mode", "RW", "ERR", "WO", "")
	case *Timeout:
		in.Timeout, in.RPCPingTimeout = zzPick("in.timeout", "", "5"), zzPick("in.ping", "", "7")
	}
	return nil
}

// the first thing written decides the status the client sees (see replica/rest harness)
var (
	zzFirst  string // "", "ok", "err", "status"
	zzErrors []error
)

func zzWrite(a *api.ApiContext, obj interface{}) {
	zzWritten = append(zzWritten, obj)
	if zzFirst == "" {
		zzFirst = "ok"
	}
}
func zzWriteErr(a *api.ApiContext, err error) {
	zzErrors = append(zzErrors, err)
	if zzFirst == "" {
		zzFirst = "err"
	}
}
func zzNewSchema() *client.Schemas { return &client.Schemas{} }
func zzVars(r *http.Request) map[string]string   { return map[string]string{"id": zzVarID} }

type zzRW struct {
	status int
	hdr    http.Header
}

func (w *zzRW) Header() http.Header {
	if w.hdr == nil {
		w.hdr = http.Header{}
	}
	return w.hdr
}
func (w *zzRW) Write(b []byte) (int, error) { return len(b), nil }
func (w *zzRW) WriteHeader(code int) {
	w.status = code
	if zzFirst == "" {
		zzFirst = "status"
	}
}

func zzRequest() *http.Request {
	return &http.Request{URL: &url.URL{}, RequestURI: "/v1/volumes/vol", Method: "POST"}
}
