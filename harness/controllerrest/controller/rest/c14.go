package rest

import (
	"net/http"

	"github.com/openebs/jiva/controller"
)

type zzHandler struct {
	name string
	f    func(s *Server) func(http.ResponseWriter, *http.Request) error
}

var zzHandlers = []zzHandler{
	{"ListVolumes", func(s *Server) func(http.ResponseWriter, *http.Request) error { return s.ListVolumes }},
	{"GetVolume", func(s *Server) func(http.ResponseWriter, *http.Request) error { return s.GetVolume }},
	{"GetVolumeStats", func(s *Server) func(http.ResponseWriter, *http.Request) error { return s.GetVolumeStats }},
	{"GetCheckpoint", func(s *Server) func(http.ResponseWriter, *http.Request) error { return s.GetCheckpoint }},
	{"ShutdownVolume", func(s *Server) func(http.ResponseWriter, *http.Request) error { return s.ShutdownVolume }},
	{"RevertVolume", func(s *Server) func(http.ResponseWriter, *http.Request) error { return s.RevertVolume }},
	{"SetLogging", func(s *Server) func(http.ResponseWriter, *http.Request) error { return s.SetLogging }},
	{"ResizeVolume", func(s *Server) func(http.ResponseWriter, *http.Request) error { return s.ResizeVolume }},
	{"SnapshotVolume", func(s *Server) func(http.ResponseWriter, *http.Request) error { return s.SnapshotVolume }},
	{"StartVolume", func(s *Server) func(http.ResponseWriter, *http.Request) error { return s.StartVolume }},
	{"DeleteSnapshot", func(s *Server) func(http.ResponseWriter, *http.Request) error { return s.DeleteSnapshot }},
	{"ListReplicas", func(s *Server) func(http.ResponseWriter, *http.Request) error { return s.ListReplicas }},
	{"GetReplica", func(s *Server) func(http.ResponseWriter, *http.Request) error { return s.GetReplica }},
	{"RegisterReplica", func(s *Server) func(http.ResponseWriter, *http.Request) error { return s.RegisterReplica }},
	{"CreateReplica", func(s *Server) func(http.ResponseWriter, *http.Request) error { return s.CreateReplica }},
	{"CreateQuorumReplica", func(s *Server) func(http.ResponseWriter, *http.Request) error { return s.CreateQuorumReplica }},
	{"DeleteReplica", func(s *Server) func(http.ResponseWriter, *http.Request) error { return s.DeleteReplica }},
	{"UpdateReplica", func(s *Server) func(http.ResponseWriter, *http.Request) error { return s.UpdateReplica }},
	{"PrepareRebuildReplica", func(s *Server) func(http.ResponseWriter, *http.Request) error { return s.PrepareRebuildReplica }},
	{"VerifyRebuildReplica", func(s *Server) func(http.ResponseWriter, *http.Request) error { return s.VerifyRebuildReplica }},
	{"DeleteVolume", func(s *Server) func(http.ResponseWriter, *http.Request) error { return s.DeleteVolume }},
	{"ListJournal", func(s *Server) func(http.ResponseWriter, *http.Request) error { return s.ListJournal }},
	{"AddTimeout", func(s *Server) func(http.ResponseWriter, *http.Request) error { return s.AddTimeout }},
}

// C14 (controller): any handler, any quiescent controller state, any decoded input:
// no panic, no process exit, no lock left held, and the API still answers afterwards.
func ZZ_C14_ControllerHandlers() {
	rf := zzParam("RF", 3)
	c := controller.ZZSymbolicController(rf)
	s := NewServer(c)
	h := zzHandlers[zzConcretize(zzChoice("handler", len(zzHandlers)))]
	zzReadMode = zzConcretize(zzChoice("body", 3))
	zzVarID = zzPick("id", EncodeID("vol"), "vol", EncodeID(controller.ZZAddr(0)), EncodeID(controller.ZZAddr(3)), EncodeID("tcp://nowhere:9502"), "!!notbase64", "")
	err := h.f(s)(&zzRW{}, zzRequest())
	_ = err
	zzAssert(c.ZZLockDepth() == 0, "C14.controller."+h.name+".lock-left-held")
	zzSettle()
	zzAssert(c.ZZLockDepth() == 0, "C14.controller."+h.name+".lock-left-held-after-settling")
	// well-formed requests afterwards are still served
	zzVarID = EncodeID("vol")
	zzReadMode = 0
	zzWritten = nil
	err2 := s.GetVolume(&zzRW{}, zzRequest())
	zzAssert(err2 == nil && len(zzWritten) == 1, "C14.controller.GetVolume-fails-after-"+h.name)
	err3 := s.ListReplicas(&zzRW{}, zzRequest())
	zzAssert(err3 == nil, "C14.controller.ListReplicas-fails-after-"+h.name)
	zzAssert(c.ZZLockDepth() == 0, "C14.controller.lock-left-held-after-follow-up")
	zzReach("C14.controller.done")
}

// an I/O or a membership-changing request (they take the controller's write lock)
// arrives while a management request is inside a call to a replica: both are served.
// sync.RWMutex prefers the waiting writer, so a handler path that read-locks the
// controller twice would deadlock the volume here.
func ZZ_C14_ControllerWriterArrives() {
	rf := zzParam("RF", 3)
	c := controller.ZZSymbolicController(rf)
	s := NewServer(c)
	h := zzHandlers[zzConcretize(zzChoice("handler", len(zzHandlers)))]
	zzReadMode = 0
	zzVarID = zzPick("id", EncodeID("vol"), EncodeID(controller.ZZAddr(0)))
	gate := make(chan struct{})
	done := make(chan bool, 1)
	opened := false
	go func() {
		<-gate
		c.ZZWriteLockUnlock()
		done <- true
	}()
	controller.ZZOnReplicaCall(func() {
		if !opened && c.ZZLockDepth() > 0 {
			opened = true
			close(gate)
			zzYield()
		}
	})
	h.f(s)(&zzRW{}, zzRequest())
	controller.ZZOnReplicaCall(nil)
	if !opened {
		close(gate)
	}
	zzSettle()
	zzAssert(len(done) == 1, "C14.controller.write-locking-request-never-served-after-"+h.name)
	zzAssert(c.ZZLockDepth() == 0, "C14.controller.lock-left-held-after-"+h.name)
	zzReach("C14.controller.writer-arrives.done")
}

// C11 (user deletion gate): DELETE snapshot marks the snapshot for removal on the
// replicas only when all RF replicas are RW, a checkpoint is set and the snapshot is not
// the checkpoint; a request that reports success reached every replica.
func ZZ_C11_DeleteSnapshotGate() {
	rf := zzParam("RF", 2)
	c := controller.ZZSymbolicController(rf)
	s := NewServer(c)
	zzReadMode = 0
	zzLastSnapName = nil
	rw := 0
	for _, r := range c.ListReplicas() {
		if r.Mode == "RW" {
			rw++
		}
	}
	cp := c.Checkpoint
	before := make([]int, rf+1)
	for i := 0; i <= rf; i++ {
		before[i] = len(controller.ZZReplicaActions(i))
	}
	err := s.DeleteSnapshot(&zzRW{}, zzRequest())
	marked := 0
	for i := 0; i <= rf; i++ {
		acts := controller.ZZReplicaActions(i)
		for _, a := range acts[before[i]:] {
			if a == "prepareremovedisk" {
				marked++
			}
		}
	}
	if marked > 0 {
		zzReach("C11.delete-gate.reached-replicas")
		zzAssert(rw == rf, "C11.user-deletion-started-without-all-RF-replicas-RW")
		zzAssert(cp != "", "C11.user-deletion-started-without-a-checkpoint")
		if zzLastSnapName != nil {
			name := zzLastSnapName.Name
			zzAssert(zzStrEq(name, "new"), "C11.user-deletion-of-the-checkpoint-or-an-empty-name-started")
		}
	}
	if err == nil {
		zzReach("C11.delete-gate.accepted")
		zzAssert(marked == rf, "C11.user-deletion-reported-success-without-marking-every-replica")
	} else {
		zzReach("C11.delete-gate.refused")
	}
	zzAssert(c.ZZLockDepth() == 0, "C11.delete-gate.lock-left-held")
}

// C09 (the registration request as it arrives over REST): the revision count a replica
// sends as decimal text is what the controller records and elects on, for every count a
// 64-bit counter can hold.
func ZZ_C09_RegisterHandler() {
	c := controller.ZZEmptyController(3)
	s := NewServer(c)
	zzReadMode = 0
	rev := zzNondetInt64("rev")
	zzAssume(rev >= 0)
	zzRegOverride, zzRegHost, zzRegRev = true, controller.ZZHost(0), zzDecStr(rev)
	err := s.RegisterReplica(&zzRW{}, zzRequest())
	zzRegOverride = false
	zzAssert(err == nil, "C09.rest.registration-refused")
	got, ok := c.ZZRegisteredRev(controller.ZZHost(0))
	zzAssert(ok, "C09.rest.registration-not-recorded")
	zzAssert(got == rev, "C09.rest.recorded-revision-count-differs-from-the-one-sent")
	zzAssert(c.ZZLockDepth() == 0, "C09.rest.lock-left-held")
	zzReach("C09.rest.registered")
}
