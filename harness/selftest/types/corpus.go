package types

//zz:rt

import (
	"encoding/binary"
	"errors"
	"fmt"
	"reflect"
	"sort"
	"strconv"
	"strings"
	"sync"
)

// Translator-validation corpus: every function computes digests from concrete
// inputs; the selftest runs them natively and in the engine and compares.

type mix struct{ h uint64 }

func (m *mix) add(v uint64) { m.h = (m.h ^ v) * 1099511628211 }
func (m *mix) addI(v int64) { m.add(uint64(v)) }
func (m *mix) addS(s string) {
	for i := 0; i < len(s); i++ {
		m.add(uint64(s[i]))
	}
	m.add(0xff)
}
func (m *mix) addB(b bool) {
	if b {
		m.add(1)
	} else {
		m.add(2)
	}
}

func ZZ_T_IntOps() {
	var m mix
	vals := []int64{0, 1, -1, 7, -7, 127, 128, 255, 256, 32767, 32768, 65535, 1 << 31, -(1 << 31), 1<<63 - 1, -(1 << 63), 1000000007, -1000000007}
	for _, a := range vals {
		for _, b := range vals {
			m.addI(a + b)
			m.addI(a - b)
			m.addI(a * b)
			if b != 0 {
				m.addI(a / b)
				m.addI(a % b)
				m.add(uint64(a) / uint64(b))
				m.add(uint64(a) % uint64(b))
			}
			m.addI(a & b)
			m.addI(a | b)
			m.addI(a ^ b)
			m.addI(a &^ b)
			m.addB(a < b)
			m.addB(uint64(a) < uint64(b))
			m.addB(a <= b)
			m.addB(a == b)
			s := uint(b) & 127
			m.addI(a << s)
			m.addI(a >> s)
			m.add(uint64(a) >> s)
			m.add(uint64(int8(a)) + uint64(uint8(b)))
			m.add(uint64(int16(a)) ^ uint64(uint16(b)))
			m.add(uint64(int32(a)) - uint64(uint32(b)))
			m.add(uint64(int8(a) >> (s & 15)))
			m.add(uint64(uint8(a) << (s & 15)))
			m.add(uint64(int16(a) * int16(b)))
			m.add(uint64(uint16(a) / (uint16(b) | 1)))
		}
		m.addI(-a)
		m.addI(^a)
	}
	zzDigest("intops", m.h)
}

type node struct {
	val  int
	next *node
	arr  [3]int
	tags []string
}

func ZZ_T_Memory() {
	var m mix
	a := []int{1, 2, 3, 4, 5}
	b := a[1:3]
	b = append(b, 99) // overwrites a[3]
	m.addI(int64(a[3]))
	b = append(b, 100, 101, 102) // reallocates
	b[0] = -1
	m.addI(int64(a[1]))
	m.addI(int64(len(b)))
	c := a[1:2:2]
	c = append(c, 7)
	m.addI(int64(a[2]))
	m.addI(int64(cap(c)))
	zzDigest("memory.alias", m.h)
	// append growth for several element sizes
	var bs []byte
	var is []int
	var ss []string
	var ns []node
	var u16 []uint16
	for i := 0; i < 40; i++ {
		bs = append(bs, byte(i))
		is = append(is, i)
		ss = append(ss, "x")
		ns = append(ns, node{val: i})
		u16 = append(u16, uint16(i))
		m.addI(int64(cap(bs)))
		m.addI(int64(cap(is)))
		m.addI(int64(cap(ss)))
		m.addI(int64(cap(ns)))
		m.addI(int64(cap(u16)))
	}
	zzDigest("memory.growth", m.h)
	is2 := append([]int{}, is[:5]...)
	m.addI(int64(cap(is2)))
	ss2 := append([]string(nil), "a", "b", "c")
	m.addI(int64(cap(ss2)))
	zzDigest("memory.growth2", m.h)
	// copy overlap
	d := []int{1, 2, 3, 4, 5, 6}
	copy(d[2:], d[:4])
	for _, v := range d {
		m.addI(int64(v))
	}
	zzDigest("memory.copy", m.h)
	// struct copy vs pointer aliasing
	n1 := node{val: 1, arr: [3]int{1, 2, 3}}
	n2 := n1
	n2.arr[0] = 9
	p := &n1
	p.arr[1] = 8
	m.addI(int64(n1.arr[0]*100 + n1.arr[1]*10 + n2.arr[0]))
	n1.next = &n2
	n1.next.val = 5
	m.addI(int64(n2.val))
	arrp := &n1.arr
	sl := arrp[:]
	sl[2] = 77
	m.addI(int64(n1.arr[2]))
	zzDigest("memory.struct", m.h)
	// slice of structs, pointer to element
	ns[3].tags = append(ns[3].tags, "t")
	q := &ns[3]
	q.val = 333
	m.addI(int64(ns[3].val + len(ns[3].tags)))
	// 2-d
	grid := make([][]int, 3)
	for i := range grid {
		grid[i] = make([]int, 3)
		for j := range grid[i] {
			grid[i][j] = i*3 + j
		}
	}
	m.addI(int64(grid[2][1]))
	zzDigest("memory", m.h)
}

func ZZ_T_Maps() {
	var m mix
	mp := map[string]int{}
	for i := 0; i < 10; i++ {
		mp["k"+strconv.Itoa(i)] = i * i
	}
	delete(mp, "k3")
	v, ok := mp["k3"]
	m.addI(int64(v))
	m.addB(ok)
	v, ok = mp["k4"]
	m.addI(int64(v))
	m.addB(ok)
	sum := 0
	for k, v := range mp {
		sum += v + len(k)
	}
	m.addI(int64(sum))
	m.addI(int64(len(mp)))
	// delete during range: deleted entries are not visited afterwards
	seen := 0
	mm := map[int]bool{1: true, 2: true, 3: true}
	for k := range mm {
		seen++
		for j := 1; j <= 3; j++ {
			if j != k {
				delete(mm, j)
			}
		}
	}
	m.addI(int64(seen))
	type key struct {
		a int
		b string
	}
	sk := map[key]*node{}
	sk[key{1, "x"}] = &node{val: 4}
	sk[key{1, "x"}].val++
	m.addI(int64(sk[key{1, "x"}].val))
	var nilmap map[string]int
	m.addI(int64(nilmap["q"] + len(nilmap)))
	ms := map[string][]string{}
	ms["a"] = append(ms["a"], "1", "2")
	m.addI(int64(len(ms["a"])))
	zzDigest("maps", m.h)
}

type animal interface {
	sound() string
	legs() int
}
type dog struct{ name string }
type bird struct{ n int }
type base struct{ id int }

func (b *base) ident() int { return b.id }
func (b base) twice() int   { return 2 * b.id }

type derived struct {
	base
	sync.Mutex
	extra int
}

func (d dog) sound() string   { return d.name + " woof" }
func (d dog) legs() int       { return 4 }
func (b *bird) sound() string { return "tweet" }
func (b *bird) legs() int     { b.n++; return 2 }

type myErr struct{ code int }

func (e *myErr) Error() string { return "myErr " + strconv.Itoa(e.code) }

func mayFail(i int) error {
	if i == 0 {
		return nil
	}
	if i == 1 {
		return &myErr{7}
	}
	return errors.New("plain")
}

func ZZ_T_Interfaces() {
	var m mix
	as := []animal{dog{"rex"}, &bird{}}
	for _, a := range as {
		m.addS(a.sound())
		m.addI(int64(a.legs()))
	}
	bd := as[1].(*bird)
	m.addI(int64(bd.n))
	_, isDog := as[1].(dog)
	m.addB(isDog)
	for i := 0; i < 3; i++ {
		err := mayFail(i)
		m.addB(err == nil)
		if me, ok := err.(*myErr); ok {
			m.addI(int64(me.code))
		}
		if err != nil {
			m.addS(err.Error())
		}
		switch e := err.(type) {
		case nil:
			m.addI(0)
		case *myErr:
			m.addI(int64(e.code))
		default:
			m.addI(99)
		}
	}
	d := &derived{base: base{5}, extra: 1}
	m.addI(int64(d.ident() + d.twice()))
	d.Lock()
	d.extra++
	d.Unlock()
	f := d.ident
	d.id = 6
	m.addI(int64(f()))
	g := base.twice
	m.addI(int64(g(base{4})))
	var e1 error = errors.New("a")
	e2 := e1
	m.addB(e1 == e2)
	m.addB(e1 == errors.New("a"))
	var ip interface{} = 5
	var jp interface{} = 5
	m.addB(ip == jp)
	var sp interface{} = "s"
	m.addB(ip == sp)
	m.addS(fmt.Sprintf("%d-%s-%v-%v", 42, "str", true, int64(-3)))
	m.addS(fmt.Sprintf("%v %v", e1, []string{"a", "b"}))
	zzDigest("interfaces", m.h)
}

func ZZ_T_Control() {
	var m mix
	// defer order and argument evaluation time
	order := ""
	func() {
		x := 1
		defer func(v int) { order += "a" + strconv.Itoa(v) + strconv.Itoa(x) }(x)
		x = 2
		defer func() { order += "b" + strconv.Itoa(x) }()
		x = 3
		for i := 0; i < 3; i++ {
			defer func(k int) { order += strconv.Itoa(k) }(i)
		}
	}()
	m.addS(order)
	// named results modified by defer
	f := func() (r int) {
		defer func() { r *= 2 }()
		return 21
	}
	m.addI(int64(f()))
	// closures capturing loop variables (per-loop variable semantics, go 1.19 module)
	var fs []func() int
	for i := 0; i < 3; i++ {
		fs = append(fs, func() int { return i })
	}
	for _, g := range fs {
		m.addI(int64(g()))
	}
	for i := 0; i < 3; i++ {
		j := i
		fs[i] = func() int { return j * 10 }
	}
	for _, g := range fs {
		m.addI(int64(g()))
	}
	// switch, labelled break/continue, goto
	cnt := 0
outer:
	for i := 0; i < 5; i++ {
		for j := 0; j < 5; j++ {
			switch {
			case j == 3:
				continue outer
			case i == 3:
				break outer
			}
			cnt += i*10 + j
		}
	}
	m.addI(int64(cnt))
	k := 0
retry:
	k++
	if k < 4 {
		goto retry
	}
	m.addI(int64(k))
	// strings
	s := "tcp://host-1:9502"
	m.addB(strings.HasPrefix(s, "tcp://"))
	parts := strings.Split(s[6:], ":")
	m.addS(parts[0])
	p, err := strconv.Atoi(parts[1])
	m.addI(int64(p))
	m.addB(err == nil)
	_, err = strconv.Atoi("zz")
	m.addB(err == nil)
	for i, r := range "héllo" {
		m.addI(int64(i))
		m.addI(int64(r))
	}
	bs := []byte("abc")
	bs[1] = 'X'
	m.addS(string(bs))
	m.addS(strings.Join([]string{"a", "b"}, "+") + strings.Repeat("z", 3) + strings.ToUpper("q") + strings.TrimSuffix("file.img", ".img"))
	// sort
	xs := []int{5, 2, 8, 1, 9, 3}
	sort.Slice(xs, func(i, j int) bool { return xs[i] < xs[j] })
	for _, v := range xs {
		m.addI(int64(v))
	}
	strs := []string{"b", "c", "a"}
	sort.Strings(strs)
	m.addS(strings.Join(strs, ""))
	m.addB(reflect.DeepEqual([]string{"a", "b"}, []string{"a", "b"}))
	m.addB(reflect.DeepEqual([]string{"a", "b"}, []string{"a", "c"}))
	m.addB(reflect.DeepEqual([]string{}, []string(nil)))
	// binary encoding
	buf := make([]byte, 16)
	binary.LittleEndian.PutUint64(buf, 0x0102030405060708)
	binary.BigEndian.PutUint32(buf[8:], 0xdeadbeef)
	binary.LittleEndian.PutUint16(buf[12:], 0xcafe)
	for _, b := range buf {
		m.add(uint64(b))
	}
	m.add(binary.LittleEndian.Uint64(buf))
	m.add(uint64(binary.BigEndian.Uint32(buf[8:])))
	zzDigest("control", m.h)
}

func ZZ_T_Concurrency() {
	var m mix
	// buffered FIFO, close, range
	ch := make(chan int, 3)
	ch <- 1
	ch <- 2
	ch <- 3
	close(ch)
	for v := range ch {
		m.addI(int64(v))
	}
	v, ok := <-ch
	m.addI(int64(v))
	m.addB(ok)
	// unbuffered rendezvous with a worker
	req := make(chan int)
	resp := make(chan int)
	go func() {
		for x := range req {
			resp <- x * x
		}
		close(resp)
	}()
	for i := 1; i <= 3; i++ {
		req <- i
		m.addI(int64(<-resp))
	}
	close(req)
	_, ok = <-resp
	m.addB(ok)
	// select with default
	sel := make(chan int, 1)
	select {
	case x := <-sel:
		m.addI(int64(x))
	default:
		m.addI(-1)
	}
	sel <- 5
	select {
	case x := <-sel:
		m.addI(int64(x))
	default:
		m.addI(-1)
	}
	// mutex + waitgroup + once
	var mu sync.Mutex
	var rw sync.RWMutex
	var wg sync.WaitGroup
	var once sync.Once
	total := 0
	for i := 1; i <= 4; i++ {
		wg.Add(1)
		go func(k int) {
			defer wg.Done()
			once.Do(func() { total += 1000 })
			mu.Lock()
			total += k
			mu.Unlock()
			rw.RLock()
			_ = total
			rw.RUnlock()
		}(i)
	}
	wg.Wait()
	m.addI(int64(total))
	m.addB(mu.TryLock())
	m.addB(mu.TryLock())
	mu.Unlock()
	done := make(chan struct{})
	res := 0
	go func() {
		rw.Lock()
		res = 7
		rw.Unlock()
		close(done)
	}()
	<-done
	m.addI(int64(res))
	zzDigest("concurrency", m.h)
}

func ZZ_T_DecStr() {
	var m mix
	for _, v := range []int64{0, 1, -1, 42, 1<<63 - 1, -(1 << 63), 1000000} {
		s := strconv.FormatInt(v, 10)
		back, err := strconv.ParseInt(s, 10, 64)
		m.addI(back)
		m.addB(err == nil)
		m.addS(s)
		m.addS(fmt.Sprintf("%d", v))
		m.addS(zzDecStr(v))
	}
	zzDigest("decstr", m.h)
}
