package types

//zz:rt

import (
	"errors"
	"fmt"
	"strings"
	"sync"
)

type pt struct {
	x, y int
	tag  string
}

type shape interface{ area() int }
type sq struct{ s int }
type rect struct{ w, h int }

func (s sq) area() int    { return s.s * s.s }
func (r *rect) area() int { return r.w * r.h }

func ZZ_Basic() {
	x := zzNondetInt("x")
	y := zzNondetInt("y")
	zzAssume(zzAnd(x >= 0, x < 100))
	zzAssume(zzAnd(y >= 0, y < 100))
	s := x + y
	zzAssert(s < 199, "sum.bound")
	zzAssert(s >= x, "sum.mono")
	if x > y {
		zzReach("gt")
		zzAssert(x-y > 0, "diff.pos")
	} else {
		zzReach("le")
	}
	a := []int{1, 2, 3}
	a = append(a, 4)
	b := a[1:3]
	b[0] = 42
	zzAssert(a[1] == 42, "alias")
	m := map[string]*pt{}
	m["a"] = &pt{1, 2, "A"}
	m["b"] = &pt{3, 4, "B"}
	tot := 0
	for _, v := range m {
		tot += v.x
	}
	zzAssert(tot == 4, "map.sum")
	var sh shape = sq{3}
	zzAssert(sh.area() == 9, "iface1")
	sh = &rect{2, x}
	zzAssert(sh.area() == 2*x, "iface2")
	e := errors.New("boom")
	err2 := fmt.Errorf("wrap %v %d", e, 3)
	zzAssert(err2.Error() == "wrap boom 3", "errorf")
	zzAssert(strings.HasPrefix("hello", "he"), "strings")
	var mu sync.Mutex
	var wg sync.WaitGroup
	cnt := 0
	for i := 0; i < 3; i++ {
		wg.Add(1)
		go func(k int) {
			defer wg.Done()
			mu.Lock()
			cnt += k
			mu.Unlock()
		}(i)
	}
	wg.Wait()
	zzAssert(cnt == 3, "goroutines")
	ch := make(chan int, 2)
	ch <- 1
	ch <- 2
	close(ch)
	sum := 0
	for v := range ch {
		sum += v
	}
	zzAssert(sum == 3, "chan")
	arr := make([]uint16, 4)
	i := zzNondetInt("i")
	zzAssume(zzAnd(i >= 0, i < 4))
	arr[i] = 7
	zzAssert(arr[i] == 7, "symidx")
	t := 0
	for k := 0; k < 4; k++ {
		t += int(arr[k])
	}
	zzAssert(t == 7, "symidx.sum")
	zzAssert(x+y != 150, "expected.violation")
}
