package app

//zz:rt

import (
	"errors"
	"io"
	"net/http"
	"os"

	"github.com/gorilla/mux"
	"github.com/openebs/jiva/controller/client"
	ctlrest "github.com/openebs/jiva/controller/rest"
	"github.com/openebs/jiva/replica"
	"github.com/openebs/jiva/replica/rest"
	"github.com/openebs/jiva/replica/rpc"
	"github.com/openebs/jiva/sync"
	"github.com/urfave/cli"
)

var zzStatusLog []string
var zzCloneFails, zzStatusFails bool

func zzTaskClone(t *sync.Task, s *replica.Server, url, address, cloneIP, snapName string) error {
	if zzCloneFails {
		return errors.New("zz: clone failed")
	}
	return nil
}
func zzSetCloneStatus(r *replica.Replica, status string) error {
	if zzStatusFails {
		return errors.New("zz: status write failed")
	}
	zzStatusLog = append(zzStatusLog, status)
	return nil
}
func zzServerReplica(s *replica.Server) *replica.Replica { return &replica.Replica{} }
func zzNewTask(url string) *sync.Task                     { return &sync.Task{} }

// C19: the clone status becomes "completed" only after the copy succeeded; a failed
// clone is reported as an error.
func ZZ_C19_AppClone() {
	zzStatusLog = nil
	zzCloneFails = zzNondetBool("clone.fails")
	zzStatusFails = zzNondetBool("status.fails")
	err := CloneReplica(&replica.Server{}, "tcp://dst:9502", "src", "s1")
	completed := false
	for _, s := range zzStatusLog {
		if s == "completed" {
			completed = true
		}
	}
	if zzCloneFails {
		zzReach("C19.app.clone-failed")
		zzAssert(err != nil, "C19.failed-clone-not-reported")
		zzAssert(!completed, "C19.status-completed-after-failed-clone")
	} else if !zzStatusFails {
		zzReach("C19.app.ok")
		zzAssert(err == nil && completed, "C19.successful-clone-not-marked-completed")
	} else {
		zzAssert(err != nil, "C19.status-write-failure-swallowed")
	}
}

// ---- the process wiring of `jiva replica` (startReplica) -------------------------
// Everything startReplica sets up around the clone step is environment: command-line
// flags, listeners, the registration goroutine.  The stubs below give it a server whose
// replica is open and let the three listeners block as they do in a healthy process.

var zzFlags map[string]string
var zzPrevStatus string

func zzCtxNArg(c *cli.Context) int                 { return 1 }
func zzCtxArgs(c *cli.Context) cli.Args            { return cli.Args{"/var/zz-replica"} }
func zzCtxString(c *cli.Context, n string) string  { return zzFlags[n] }
func zzCtxBool(c *cli.Context, n string) bool      { return false }
func zzCtxInt(c *cli.Context, n string) int        { return 0 }
func zzGetenv(k string) string                     { return "" }
func zzMkdir(p string, m os.FileMode) error        { return nil }
func zzCreateHoles()                               {}
func zzServerCreate(s *replica.Server, sz int64) error { return nil }
func zzRestNewServer(s *replica.Server) *rest.Server   { return nil }
func zzRestNewRouter(s *rest.Server) *mux.Router       { return nil }
func zzFilteredLoggingHandler(f map[string]struct{}, w io.Writer, h http.Handler) http.Handler {
	return nil
}
func zzListenAndServe(addr string, h http.Handler) error { var never chan error; return <-never }
func zzRPCNew(addr string, s *replica.Server) *rpc.Server { return nil }
func zzRPCListenAndServe(s *rpc.Server) error             { var never chan error; return <-never }
func zzAutoConfigureReplica(s *replica.Server, frontendIP, address, replicaType string) {}
func zzGetCloneStatus(r *replica.Replica) string          { return zzPrevStatus }

// C19: a replica process started as a clone reports "completed" only after the clone
// succeeded; when the clone fails (source interrupted, snapshot missing, a step of the
// orchestration failing) it ends up reporting "error" - never "completed" - and
// startReplica returns the failure.  A restart of an already completed clone does not
// clone again.
func ZZ_C19_StartReplicaClone() {
	zzStatusLog = nil
	zzCloneFails = zzNondetBool("clone.fails")
	zzStatusFails = false
	zzPrevStatus = zzPick("status.at.start", "", "inProgress", "completed", "error")
	zzFlags = map[string]string{"type": "clone", "listen": "10.0.0.9:9502", "frontendIP": "", "cloneIP": "10.0.0.1", "snapName": "s1", "size": ""}
	var err error
	done := make(chan bool, 1)
	go func() {
		err = startReplica(&cli.Context{})
		done <- true
	}()
	zzSettle()
	last := ""
	completed := false
	for _, s := range zzStatusLog {
		last = s
		if s == "completed" {
			completed = true
		}
	}
	if zzPrevStatus == "completed" {
		zzReach("C19.start.already-completed")
		zzAssert(last == "completed" || last == "", "C19.start.completed-clone-lost-its-status")
		return
	}
	if zzCloneFails {
		zzReach("C19.start.clone-failed")
		zzAssert(!completed, "C19.start.failed-clone-reported-completed")
		zzAssert(last == "error", "C19.start.failed-clone-not-reported-as-error")
		zzAssert(len(done) == 1 && err != nil, "C19.start.failed-clone-did-not-stop-the-replica-with-an-error")
	} else {
		zzReach("C19.start.clone-ok")
		zzAssert(last == "completed", "C19.start.successful-clone-not-reported-completed")
		zzAssert(len(zzStatusLog) > 0 && zzStatusLog[0] == "inProgress", "C19.start.clone-not-marked-inProgress-first")
		zzAssert(len(done) == 0, "C19.start.replica-process-ended-after-successful-clone")
	}
}

// ---- AutoConfigureReplica: how a (re)started replica process joins its volume ----------
// It asks the controller how it is listed, waits while it is still listed as failed (ERR,
// pending removal), closes the local server - only a closed replica can be attached - and
// then goes through the add path (register / add-and-rebuild).  A detached replica comes
// back only this way.

var (
	zzListScript []string // per poll: "fail", "absent", or the mode it is listed with
	zzListPos    int
	zzAppLog     []string
	zzAddFails   bool
)

func zzNewControllerClient(url string) *client.ControllerClient { return &client.ControllerClient{} }
func zzListReplicas(c *client.ControllerClient) ([]ctlrest.Replica, error) {
	e := zzListScript[zzListPos]
	if zzListPos < len(zzListScript)-1 {
		zzListPos++
	}
	zzAppLog = append(zzAppLog, "list:"+e)
	switch e {
	case "fail":
		return nil, errors.New("zz: controller unreachable")
	case "absent":
		return []ctlrest.Replica{{Address: "tcp://other:9502", Mode: "RW"}}, nil
	}
	return []ctlrest.Replica{{Address: "tcp://other:9502", Mode: "RW"}, {Address: "tcp://me:9502", Mode: e}}, nil
}
func zzServerClose(s *replica.Server) error { zzAppLog = append(zzAppLog, "close"); return nil }
func zzTaskAddReplica(t *sync.Task, addr string, s *replica.Server) error {
	zzAppLog = append(zzAppLog, "add:"+addr)
	if zzAddFails {
		return errors.New("zz: add failed")
	}
	return nil
}
func zzTaskAddQuorumReplica(t *sync.Task, addr string, s *replica.Server) error {
	zzAppLog = append(zzAppLog, "addquorum:"+addr)
	return nil
}

func ZZ_C05_AutoConfigure() {
	zzAppLog = nil
	zzListPos = 0
	n := 1 + zzConcretize(zzChoice("polls", 3))
	zzListScript = nil
	for i := 0; i < n; i++ {
		zzListScript = append(zzListScript, zzConcStr(zzPick("listed", "fail", "absent", "ERR", "RW", "WO", "")))
	}
	// the controller reaps a failed entry eventually: the script does not end on ERR
	zzAssume(zzListScript[n-1] != "ERR")
	zzAddFails = zzNondetBool("add.fails")
	zzTrapFatal()
	exited := zzTry(func() { AutoConfigureReplica(&replica.Server{}, "10.0.0.1", "tcp://me:9502", "Backend") })
	adds, closes := 0, 0
	closeAt, addAt := -1, -1
	for i, e := range zzAppLog {
		if e == "close" && closeAt < 0 {
			closeAt = i
			closes++
		}
		if len(e) > 4 && e[:4] == "add:" {
			adds++
			addAt = i
			zzAssert(e == "add:tcp://me:9502", "C05.autoconfigure.added-another-address")
		}
	}
	zzAssert(adds <= 1, "C05.autoconfigure.added-twice")
	if adds == 1 {
		zzReach("C05.autoconfigure.added")
		zzAssert(closeAt >= 0 && closeAt < addAt, "C17.autoconfigure.add-requested-without-closing-the-local-replica-first")
		// what the controller said last before the add: reachable, and not "still listed as failed"
		last := ""
		for i := 0; i < addAt; i++ {
			if len(zzAppLog[i]) >= 5 && zzAppLog[i][:5] == "list:" {
				last = zzAppLog[i][5:]
			}
		}
		zzAssert(last != "ERR" && last != "fail", "C05.autoconfigure.add-requested-while-still-listed-as-failed")
		zzAssert(zzAddFails == exited, "C05.autoconfigure.failed-add-did-not-stop-the-replica-process")
	} else {
		// never added: the controller kept failing / kept listing it as failed within the script
		zzReach("C05.autoconfigure.not-added")
	}
}
