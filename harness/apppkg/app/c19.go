package app

//zz:rt

import (
	"errors"

	"github.com/openebs/jiva/replica"
	"github.com/openebs/jiva/sync"
)

var zzStatusLog []string
var zzCloneFails, zzStatusFails bool

func zzTaskClone(t *sync.Task, s *replica.Server, url, address, cloneIP, snapName string) error {
	if zzCloneFails {
		return errors.New("zz: clone failed")
	}
	return nil
}
func zzSetCloneStatus(r *replica.Replica, status string) error {
	if zzStatusFails {
		return errors.New("zz: status write failed")
	}
	zzStatusLog = append(zzStatusLog, status)
	return nil
}
func zzServerReplica(s *replica.Server) *replica.Replica { return &replica.Replica{} }
func zzNewTask(url string) *sync.Task                     { return &sync.Task{} }

// C19: the clone status becomes "completed" only after the copy succeeded; a failed
// clone is reported as an error.
func ZZ_C19_AppClone() {
	zzStatusLog = nil
	zzCloneFails = zzNondetBool("clone.fails")
	zzStatusFails = zzNondetBool("status.fails")
	err := CloneReplica(&replica.Server{}, "tcp://dst:9502", "src", "s1")
	completed := false
	for _, s := range zzStatusLog {
		if s == "completed" {
			completed = true
		}
	}
	if zzCloneFails {
		zzReach("C19.app.clone-failed")
		zzAssert(err != nil, "C19.failed-clone-not-reported")
		zzAssert(!completed, "C19.status-completed-after-failed-clone")
	} else if !zzStatusFails {
		zzReach("C19.app.ok")
		zzAssert(err == nil && completed, "C19.successful-clone-not-marked-completed")
	} else {
		zzAssert(err != nil, "C19.status-write-failure-swallowed")
	}
}
