package remote

//zz:rt

import (
	"encoding/json"
	"errors"
	"io"
	"net/http"
	"net/url"

	"github.com/openebs/jiva/replica/rest"
)

// E-http-client: what net/http and encoding/json give the controller's REST calls to a
// replica.  One request: the transport fails, or an answer with a status code arrives;
// a 200 answer's body decodes or does not.  These wrappers are what the replica model of
// the controller harnesses (E-replica-rest) abstracts as "a management call either takes
// effect and succeeds, or fails" - this harness checks that they keep that contract.

type zzBody struct{ closed *int }

func (b zzBody) Read(p []byte) (int, error) { return 0, io.EOF }
func (b zzBody) Close() error               { *b.closed++; return nil }

var (
	zzReqMethod, zzReqURL string
	zzReqs                int
	zzSent                interface{}
	zzEncoded             int
	zzOutcome             int // outcome of the first request: 0 transport error, 1 = 200, 2 = 500, 3 = 404, 4 = 201
	zzDecodeFails         bool
	zzClosed              int
	zzTimeoutAtDo         int64
	zzAnswer              rest.Replica
	zzUsage               rest.VolUsage
	// request bodies: an encoder fills its buffer, a request built over a buffer carries
	// what is in it when it is sent, and sending drains the buffer
	zzBufs  []*zzBuf
	zzWires []zzWire
)

// zzRouteAnswer, when set, answers every request (see probe.go)
var zzRouteAnswer func(req *http.Request) int

type zzBuf struct {
	w       interface{} // the io.Writer the encoder was created over
	content interface{}
	req     *http.Request
}

type zzWire struct {
	method, url string
	payload     interface{}
	outcome     int
}

func zzNewRequest(method, u string, body io.Reader) (*http.Request, error) {
	zzReqs++
	zzReqMethod, zzReqURL = method, u
	pu, err := url.Parse(u)
	if err != nil {
		return nil, err
	}
	req := &http.Request{Method: method, Header: http.Header{}, URL: pu}
	for _, b := range zzBufs {
		if body != nil && b.w == interface{}(body) {
			b.req = req
		}
	}
	return req, nil
}
func zzHeaderAdd(h http.Header, k, v string) {}

func zzClientDo(c *http.Client, req *http.Request) (*http.Response, error) {
	zzTimeoutAtDo = int64(c.Timeout)
	w := zzWire{method: req.Method, url: zzReqURL}
	for _, b := range zzBufs {
		if b.req == req {
			w.payload = b.content
			b.content = nil // the transport read the body to its end
		}
	}
	w.outcome = zzOutcome
	if zzRouteAnswer != nil {
		// answered by the replica's route table: 0 = no connection, else the status
		st := zzRouteAnswer(req)
		zzWires = append(zzWires, w)
		if st == 0 {
			return nil, errors.New("zz: connection refused")
		}
		return &http.Response{StatusCode: st, Status: "status", Body: zzBody{&zzClosed}}, nil
	}
	if len(zzWires) > 0 {
		// a further request over the same connection pool has an outcome of its own
		w.outcome = zzConcretize(zzChoice("outcome.again", 5))
	}
	if len(zzWires) >= 3 {
		w.outcome = 0
	}
	zzWires = append(zzWires, w)
	switch w.outcome {
	case 0:
		return nil, errors.New("zz: connection refused")
	case 1:
		return &http.Response{StatusCode: 200, Status: "200 OK", Body: zzBody{&zzClosed}}, nil
	case 2:
		return &http.Response{StatusCode: 500, Status: "500 Internal Server Error", Body: zzBody{&zzClosed}}, nil
	case 3:
		return &http.Response{StatusCode: 404, Status: "404 Not Found", Body: zzBody{&zzClosed}}, nil
	}
	return &http.Response{StatusCode: 201, Status: "201 Created", Body: zzBody{&zzClosed}}, nil
}

func zzNewEncoder(w io.Writer) *json.Encoder {
	zzBufs = append(zzBufs, &zzBuf{w: interface{}(w)})
	return &json.Encoder{}
}
func zzEncode(e *json.Encoder, v interface{}) error {
	zzEncoded++
	zzSent = v
	if len(zzBufs) > 0 {
		zzBufs[len(zzBufs)-1].content = v
	}
	return nil
}
func zzNewDecoder(r io.Reader) *json.Decoder { return &json.Decoder{} }
func zzDecode(d *json.Decoder, v interface{}) error {
	if zzDecodeFails {
		return errors.New("zz: unexpected end of JSON input")
	}
	switch out := v.(type) {
	case *rest.Replica:
		*out = zzAnswer
	case *rest.VolUsage:
		*out = zzUsage
	}
	return nil
}
// the body of an error answer is whatever the replica wrote into it: it may echo names and
// phrases ("already exists", "not found") that mean nothing about what the replica did
func zzReadAll(r io.Reader) ([]byte, error) {
	return []byte(zzConcStr(zzPick("error.body", "", "Snapshot volume-snap-s1.img already exists", "{\"type\":\"error\",\"status\":500}", "not found"))), nil
}

func zzRemote() *Remote {
	return &Remote{Name: "tcp://h1:9502", replicaURL: "http://h1:9502/v1/replicas/1", httpClient: &http.Client{Timeout: timeout}}
}

// every action the controller sends: success is reported only for a 200 answer
func ZZ_Env_RemoteAction() {
	zzReqs, zzEncoded, zzClosed = 0, 0, 0
	zzBufs, zzWires = nil, nil
	zzOutcome = zzConcretize(zzChoice("outcome", 5))
	r := zzRemote()
	var err error
	action := ""
	switch zzConcretize(zzChoice("action", 8)) {
	case 0:
		action = "snapshot"
		err = r.Snapshot("s1", zzNondetBool("user"), "t")
	case 1:
		action = "resize"
		err = r.Resize("vol", "2M")
	case 2:
		action = "setrebuilding"
		err = r.SetRebuilding(zzNondetBool("rebuilding"))
	case 3:
		action = "setreplicamode"
		err = r.SetReplicaMode("RW")
	case 4:
		action = "setcheckpoint"
		err = r.SetCheckpoint("volume-snap-s1.img")
	case 5:
		action = "setrevisioncounter"
		err = r.SetRevisionCounter(zzNondetInt64("counter"))
	case 6:
		action = "open"
		err = r.open()
	default:
		action = "setreplicamode"
		err = r.SetReplicaMode("ERR") // not a mode a replica can be told
		zzAssert(err != nil && zzReqs == 0, "env.remote.invalid-mode-sent-to-replica")
		return
	}
	// whatever was sent went to the action's URL as a POST; the action is reported done
	// only if a request that carried the action's input was answered 200, and an answer
	// of 200 to such a request is not reported as a failure
	zzAssert(len(zzWires) >= 1, "env.remote.action-not-sent")
	delivered := false
	for _, w := range zzWires {
		zzAssert(w.method == "POST" && w.url == "http://h1:9502/v1/replicas/1?action="+action, "env.remote.wrong-action-url")
		if w.outcome == 1 && (w.payload != nil || action == "open") {
			delivered = true
		}
	}
	last := zzWires[len(zzWires)-1]
	if err == nil {
		zzReach("env.remote.action-ok")
		zzAssert(delivered, "env.remote.action-reported-done-without-a-200-to-a-request-carrying-its-input")
	} else {
		zzReach("env.remote.action-failed")
		zzAssert(!(last.outcome == 1 && (last.payload != nil || action == "open")), "env.remote.successful-action-reported-as-failure")
	}
	answered := 0
	for _, w := range zzWires {
		if w.outcome != 0 {
			answered++
		}
	}
	zzAssert(zzClosed == answered, "env.remote.response-body-not-closed")
	if action == "open" {
		zzAssert(zzTimeoutAtDo == 0, "env.remote.open-sent-with-a-timeout")
	}
}

// status query: a replica description is returned only for a 200 answer that decoded
func ZZ_Env_RemoteInfo() {
	zzReqs, zzClosed = 0, 0
	zzBufs, zzWires = nil, nil
	zzOutcome = zzConcretize(zzChoice("outcome", 5))
	zzDecodeFails = zzNondetBool("decode.fails")
	zzAnswer = rest.Replica{}
	zzAnswer.State = zzConcStr(zzPick("state", "closed", "open", "dirty"))
	zzAnswer.Chain = []string{"volume-head-001.img", "volume-snap-a.img"}
	zzAnswer.RevisionCounter = "42"
	zzAnswer.CloneStatus = "completed"
	zzAnswer.Size = "1048576"
	zzAnswer.SectorSize = 4096
	zzAnswer.RemainSnapshots = 7
	zzUsage = rest.VolUsage{RevisionCounter: "42", UsedLogicalBlocks: "3", UsedBlocks: "5", SectorSize: "4096"}
	r := zzRemote()
	ok := zzOutcome == 1 && !zzDecodeFails
	switch zzConcretize(zzChoice("query", 6)) {
	case 0:
		rep, err := r.info()
		zzAssert((err == nil) == ok, "env.remote.info-error-status-wrong")
		if ok {
			zzAssert(rep.State == zzAnswer.State && len(rep.Chain) == 2, "env.remote.info-returns-other-data")
		}
	case 1:
		ch, err := r.GetReplicaChain()
		zzAssert((err == nil) == ok, "env.remote.chain-error-status-wrong")
		if ok {
			zzAssert(len(ch) == 2 && ch[1] == "volume-snap-a.img", "env.remote.chain-returns-other-data")
		}
	case 2:
		n, err := r.GetRevisionCounter()
		zzAssert((err == nil) == ok, "env.remote.counter-error-status-wrong")
		if ok {
			zzAssert(n == 42, "env.remote.counter-returns-other-value")
		}
	case 3:
		st, err := r.GetCloneStatus()
		zzAssert((err == nil) == ok, "env.remote.clonestatus-error-status-wrong")
		if ok {
			zzAssert(st == "completed", "env.remote.clonestatus-returns-other-value")
		}
	case 4:
		sz, err := r.Size()
		zzAssert((err == nil) == ok, "env.remote.size-error-status-wrong")
		if ok {
			zzAssert(sz == 1048576, "env.remote.size-returns-other-value")
		}
	default:
		vu, err := r.GetVolUsage()
		zzAssert((err == nil) == ok, "env.remote.volusage-error-status-wrong")
		if ok {
			zzAssert(vu.RevisionCounter == 42 && vu.UsedBlocks == 5 && vu.UsedLogicalBlocks == 3 && vu.SectorSize == 4096, "env.remote.volusage-returns-other-values")
		}
	}
	zzAssert(zzReqs == 1 && zzReqMethod == "GET", "env.remote.query-not-sent-as-one-GET")
	if zzOutcome != 0 {
		zzAssert(zzClosed == 1, "env.remote.response-body-not-closed")
	}
	if ok {
		zzReach("env.remote.query-ok")
	} else {
		zzReach("env.remote.query-failed")
	}
}
