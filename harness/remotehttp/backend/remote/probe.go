package remote

import (
	"net/http"

	"github.com/openebs/jiva/replica/rest"
	"github.com/openebs/jiva/zzmux"
)

// C09 / C17 (the controller's calls as the replica's REST API receives them): the
// liveness probe, the start signal and every management action are answered by the route
// table the real replica router (replica/rest NewRouter) builds - E-mux decides which
// handler, if any, the request reaches.  A live, reachable replica is reported alive, a
// replica whose port refuses the connection is not; the start signal and every action go
// to a route that exists.
func ZZ_Env_RemoteProbe() {
	zzReqs, zzEncoded, zzClosed = 0, 0, 0
	zzBufs, zzWires = nil, nil
	zzmux.Reset()
	router := rest.NewRouter(rest.NewServer(nil))
	reachable := zzNondetBool("replica.reachable")
	zzRouteAnswer = func(req *http.Request) int {
		if !reachable {
			return 0
		}
		h, _, status := zzmux.Match(router, req.Method, req.URL.Path, req.URL.Query())
		if h == nil {
			return status
		}
		return 200
	}
	f := &Factory{}
	switch zzConcretize(zzChoice("call", 3)) {
	case 0:
		alive := f.VerifyReplicaAlive("h1")
		zzAssert(alive == reachable, "env.remote.probe.liveness-probe-disagrees-with-the-replica's-state")
		zzReach("env.remote.probe.liveness")
	case 1:
		err := f.SignalToAdd("h1", "start")
		zzAssert((err == nil) == reachable, "env.remote.probe.start-signal-not-delivered-to-a-reachable-replica")
		zzReach("env.remote.probe.signal")
	default:
		r := &Remote{Name: "tcp://h1:9502", replicaURL: "http://h1:9502/v1/replicas/1", httpClient: &http.Client{Timeout: timeout}}
		var err error
		switch zzConcretize(zzChoice("action", 7)) {
		case 0:
			err = r.Snapshot("s1", true, "t")
		case 1:
			err = r.Resize("vol", "2M")
		case 2:
			err = r.SetRebuilding(true)
		case 3:
			err = r.SetReplicaMode("RW")
		case 4:
			err = r.SetCheckpoint("volume-snap-s1.img")
		case 5:
			err = r.SetRevisionCounter(7)
		default:
			err = r.open()
		}
		zzAssert((err == nil) == reachable, "env.remote.probe.action-sent-to-a-route-the-replica-does-not-serve")
		zzReach("env.remote.probe.action")
	}
	zzRouteAnswer = nil
}
