package replica

import (
	"github.com/openebs/jiva/types"
	"github.com/openebs/jiva/zzfs"
)

// C08 — crash consistency and single-call failures of the replica directory.

// zzPreState: a replica with `snaps` snapshots (reachable by construction: made by
// the real Snapshot), mode RW, one block written to the head.
func zzPreState(fs *zzfs.FS, snaps int) *Replica {
	r, err := zzOpenReplica()
	zzAssume(err == nil)
	r.mode = types.RW
	names := []string{"a", "b", "c"}
	for i := 0; i < snaps; i++ {
		err := r.Snapshot(names[i], i == 0, "t")
		zzAssume(err == nil)
	}
	return r
}

var zzC08Ops = []string{"Snapshot", "RemoveDiffDisk", "Revert", "Resize", "PrepareRemoveDisk", "SetCheckpoint", "SetRebuilding", "Close"}

// zzRunC08Op runs operation op; returns error, possibly a new replica (Revert)
func zzRunC08Op(r *Replica, op int, snaps int) (error, *Replica) {
	switch op {
	case 0:
		return r.Snapshot("new", zzNondetBool("user"), "t"), r
	case 1:
		// remove the oldest removable snapshot (needs >= 3 chain members: head, latest, victim, ...)
		return r.RemoveDiffDisk("volume-snap-b.img"), r
	case 2:
		rn, err := r.Revert("volume-snap-a.img", "t")
		if rn != nil {
			rn.mode = types.RW
			return err, rn
		}
		return err, r
	case 3:
		return r.Resize(int64(2 * zzSize)), r
	case 4:
		_, err := r.PrepareRemoveDisk("volume-snap-b.img")
		return err, r
	case 5:
		return r.SetCheckpoint("volume-snap-a.img"), r
	case 6:
		return r.SetRebuilding(true), r
	default:
		return r.Close(), r
	}
}

func zzC08Setup() (*zzfs.FS, *Replica, int, int) {
	fs := zzInstallFS()
	op := zzParam("OP", -1)
	if op < 0 {
		op = zzConcretize(zzChoice("op", len(zzC08Ops)))
	}
	snaps := 1
	if op == 1 || op == 4 {
		snaps = 3 // base a, victim b, latest c
	} else if op == 2 {
		snaps = 2
	} else {
		snaps = zzConcretize(zzChoice("snaps", 3))
	}
	r := zzPreState(fs, snaps)
	return fs, r, op, snaps
}

// Process death at any mutating step: the directory reopens to the chain before or
// the chain after the operation, with every retained snapshot's data file intact.
func ZZ_C08_Crash() {
	fs, r, op, snaps := zzC08Setup()
	before := zzMemDigest(r)
	// dry run on the model to learn the post-state is not possible without side effects;
	// instead the post-state is obtained from an uncrashed twin path (crash index = none)
	total := zzParam("MAXSTEPS", 40)
	crashAt := zzConcretize(zzChoice("crashAt", total+1)) // == total: no crash
	fs.MutSteps = 0
	if crashAt < total {
		fs.CrashAt = crashAt
	}
	opname := zzC08Ops[op]
	zzTrapFatal()
	var err error
	rn := r
	ended := zzTry(func() { err, rn = zzRunC08Op(r, op, snaps) })
	zzAssert(!ended || fs.Dead, "C08."+opname+"-terminated-the-process-without-a-fault")
	if !fs.Dead {
		// the operation completed without reaching the crash point
		zzAssume(crashAt == total || crashAt >= fs.MutSteps)
		if crashAt != total {
			zzAssume(false) // crash index beyond the operation: same as no crash
		}
		zzReach("C08.crash.none")
		if err == nil {
			zzAssert(!fs.DirDirty, "C08.durability."+opname+"-returned-success-with-unsynced-directory")
			after := zzMemDigest(rn)
			zzReopenCheck("C08.clean."+opname, fs, after)
		}
		return
	}
	zzReach("C08.crash.dead")
	// what the chain would be had the operation completed: computed structurally
	after := zzExpectedAfter(before, op)
	zzReopenCheck("C08.crash."+opname, fs, before, after)
}

// zzExpectedAfter: the chain (names/flags) the operation produces when it succeeds.
func zzExpectedAfter(b zzDigestT, op int) zzDigestT {
	a := zzDigestT{ok: true, size: b.size, cp: b.cp}
	a.chain = append([]string{}, b.chain...)
	a.flags = append([]disk{}, b.flags...)
	a.inodes = append([]int{}, b.inodes...)
	switch op {
	case 0: // snapshot: old head becomes volume-snap-new.img, new head on top
		a.wildHead = true
		a.chain = append([]string{"?"}, a.chain...)
		a.chain[1] = "volume-snap-new.img"
		a.flags = append([]disk{{}}, a.flags...)
		a.inodes = append([]int{0}, a.inodes...)
		a.wildUser1 = true
	case 1: // remove volume-snap-b.img
		for i, n := range b.chain {
			if n == "volume-snap-b.img" {
				a.chain = append(append([]string{}, b.chain[:i]...), b.chain[i+1:]...)
				a.flags = append(append([]disk{}, b.flags[:i]...), b.flags[i+1:]...)
				a.inodes = append(append([]int{}, b.inodes[:i]...), b.inodes[i+1:]...)
				if i > 0 {
					a.flags[i-1].Parent = b.flags[i].Parent
				}
			}
		}
	case 2: // revert to volume-snap-a.img: new head on top of a
		a.wildHead = true
		for i, n := range b.chain {
			if n == "volume-snap-a.img" {
				a.chain = append([]string{"?"}, b.chain[i:]...)
				a.flags = append([]disk{{}}, b.flags[i:]...)
				a.inodes = append([]int{0}, b.inodes[i:]...)
			}
		}
	case 3:
		a.size = 2 * zzSize
	case 4:
		for i, n := range a.chain {
			if n == "volume-snap-b.img" {
				a.flags[i].Removed = true
			}
		}
	case 5:
		a.cp = "volume-snap-a.img"
	}
	return a
}

// One file-system call fails (ENOSPC on writes / links / creates, EIO otherwise):
// success is never reported over damaged metadata, and after a reported failure the
// directory still reopens to the chain before or after the operation; the live
// in-memory replica keeps agreeing with the directory.
func ZZ_C08_Fail() {
	fs, r, op, snaps := zzC08Setup()
	before := zzMemDigest(r)
	total := zzParam("MAXSTEPS", 60)
	failAt := zzConcretize(zzChoice("failAt", total))
	fs.Steps = 0
	fs.FailAt = failAt
	opname := zzC08Ops[op]
	zzTrapFatal()
	var err error
	rn := r
	ended := zzTry(func() { err, rn = zzRunC08Op(r, op, snaps) })
	if !fs.Failed {
		zzAssume(false) // the failing index lies beyond the operation
	}
	zzReach("C08.fail.injected")
	after := zzExpectedAfter(before, op)
	if ended {
		// the replica chose to exit (logrus.Fatalf): the directory must still be consistent
		zzReach("C08.fail.exit")
		zzReopenCheck("C08.fail-exit."+opname, fs, before, after)
		return
	}
	mem := zzMemDigest(rn)
	if err == nil {
		zzReach("C08.fail.tolerated")
		r2 := zzReopenCheck("C08.fail-success."+opname, fs, after)
		if r2 != nil && op != 7 {
			zzAssert(zzSameLinks(zzMemDigest(r2), mem), "C08.fail-success."+opname+".live-chain-disagrees-with-directory")
		}
	} else {
		zzReach("C08.fail.reported")
		r2 := zzReopenCheck("C08.fail-reported."+opname, fs, before, after)
		if r2 != nil && op != 7 {
			zzAssert(zzSameLinks(zzMemDigest(r2), mem), "C08.fail-reported."+opname+".live-chain-disagrees-with-directory")
		}
	}
}
