package replica

import (
	"github.com/openebs/jiva/types"
	"github.com/openebs/jiva/zzfs"
)

// C08 — crash consistency and single-call failures of the replica directory.

// zzPreState: a replica with `snaps` snapshots (reachable by construction: made by
// the real Snapshot), mode RW, one block written to the head.
func zzPreState(fs *zzfs.FS, snaps int) *Replica {
	r, err := zzOpenReplica()
	zzAssume(err == nil)
	r.mode = types.RW
	names := []string{"a", "b", "c"}
	for i := 0; i < snaps; i++ {
		err := r.Snapshot(names[i], i == 0, "t")
		zzAssume(err == nil)
	}
	return r
}

var zzC08Ops = []string{"Snapshot", "RemoveDiffDisk", "Revert", "Resize", "PrepareRemoveDisk", "SetCheckpoint", "SetRebuilding", "Close"}

// zzRunC08Op runs operation op; returns error, possibly a new replica (Revert)
func zzRunC08Op(r *Replica, op int, snaps int) (error, *Replica) {
	switch op {
	case 0:
		return r.Snapshot("new", zzNondetBool("user"), "t"), r
	case 1:
		// remove the oldest removable snapshot (needs >= 3 chain members: head, latest, victim, ...)
		return r.RemoveDiffDisk("volume-snap-b.img"), r
	case 2:
		rn, err := r.Revert("volume-snap-a.img", "t")
		if rn != nil {
			rn.mode = types.RW
			return err, rn
		}
		return err, r
	case 3:
		return r.Resize(int64(2 * zzSize)), r
	case 4:
		_, err := r.PrepareRemoveDisk("volume-snap-b.img")
		return err, r
	case 5:
		return r.SetCheckpoint("volume-snap-a.img"), r
	case 6:
		return r.SetRebuilding(true), r
	default:
		return r.Close(), r
	}
}

func zzC08Setup() (*zzfs.FS, *Replica, int, int) {
	fs := zzInstallFS()
	op := zzParam("OP", -1)
	if op < 0 {
		op = zzConcretize(zzChoice("op", len(zzC08Ops)))
	}
	snaps := 1
	if op == 1 || op == 4 {
		snaps = 3 // base a, victim b, latest c
	} else if op == 2 {
		snaps = 2
	} else {
		snaps = zzConcretize(zzChoice("snaps", 3))
	}
	r := zzPreState(fs, snaps)
	return fs, r, op, snaps
}

// Process death at any mutating step: the directory reopens to the chain before or
// the chain after the operation, with every retained snapshot's data file intact.
func ZZ_C08_Crash() {
	fs, r, op, snaps := zzC08Setup()
	before := zzMemDigest(r)
	// dry run on the model to learn the post-state is not possible without side effects;
	// instead the post-state is obtained from an uncrashed twin path (crash index = none)
	total := zzParam("MAXSTEPS", 40)
	crashAt := zzConcretize(zzChoice("crashAt", total+1)) // == total: no crash
	fs.MutSteps = 0
	if crashAt < total {
		fs.CrashAt = crashAt
	}
	opname := zzC08Ops[op]
	zzTrapFatal()
	var err error
	rn := r
	ended := zzTry(func() { err, rn = zzRunC08Op(r, op, snaps) })
	zzAssert(!ended || fs.Dead, "C08."+opname+"-terminated-the-process-without-a-fault")
	if !fs.Dead {
		// the operation completed without reaching the crash point
		zzAssume(crashAt == total || crashAt >= fs.MutSteps)
		if crashAt != total {
			zzAssume(false) // crash index beyond the operation: same as no crash
		}
		zzReach("C08.crash.none")
		if err == nil {
			zzAssert(!fs.DirDirty, "C08.durability."+opname+"-returned-success-with-unsynced-directory")
			after := zzMemDigest(rn)
			zzReopenCheck("C08.clean."+opname, fs, after)
		}
		return
	}
	zzReach("C08.crash.dead")
	// what the chain would be had the operation completed: computed structurally
	after := zzExpectedAfter(before, op)
	zzReopenCheck("C08.crash."+opname, fs, before, after)
}

// zzExpectedAfter: the chain (names/flags) the operation produces when it succeeds.
func zzExpectedAfter(b zzDigestT, op int) zzDigestT {
	a := zzDigestT{ok: true, size: b.size, cp: b.cp}
	a.chain = append([]string{}, b.chain...)
	a.flags = append([]disk{}, b.flags...)
	a.inodes = append([]int{}, b.inodes...)
	switch op {
	case 0: // snapshot: old head becomes volume-snap-new.img, new head on top
		a.wildHead = true
		a.chain = append([]string{"?"}, a.chain...)
		a.chain[1] = "volume-snap-new.img"
		a.flags = append([]disk{{}}, a.flags...)
		a.inodes = append([]int{0}, a.inodes...)
		a.wildUser1 = true
	case 1: // remove volume-snap-b.img
		for i, n := range b.chain {
			if n == "volume-snap-b.img" {
				a.chain = append(append([]string{}, b.chain[:i]...), b.chain[i+1:]...)
				a.flags = append(append([]disk{}, b.flags[:i]...), b.flags[i+1:]...)
				a.inodes = append(append([]int{}, b.inodes[:i]...), b.inodes[i+1:]...)
				if i > 0 {
					a.flags[i-1].Parent = b.flags[i].Parent
				}
			}
		}
	case 2: // revert to volume-snap-a.img: new head on top of a
		a.wildHead = true
		for i, n := range b.chain {
			if n == "volume-snap-a.img" {
				a.chain = append([]string{"?"}, b.chain[i:]...)
				a.flags = append([]disk{{}}, b.flags[i:]...)
				a.inodes = append([]int{0}, b.inodes[i:]...)
			}
		}
	case 3:
		a.size = 2 * zzSize
	case 4:
		for i, n := range a.chain {
			if n == "volume-snap-b.img" {
				a.flags[i].Removed = true
			}
		}
	case 5:
		a.cp = "volume-snap-a.img"
	}
	return a
}

// One file-system call fails (ENOSPC on writes / links / creates, EIO otherwise):
// success is never reported over damaged metadata, and after a reported failure the
// directory still reopens to the chain before or after the operation; the live
// in-memory replica keeps agreeing with the directory.
func ZZ_C08_Fail() {
	fs, r, op, snaps := zzC08Setup()
	before := zzMemDigest(r)
	total := zzParam("MAXSTEPS", 60)
	failAt := zzConcretize(zzChoice("failAt", total))
	fs.Steps = 0
	fs.FailAt = failAt
	fs.MarkDurable()
	opname := zzC08Ops[op]
	zzTrapFatal()
	var err error
	rn := r
	ended := zzTry(func() { err, rn = zzRunC08Op(r, op, snaps) })
	if !fs.Failed {
		zzAssume(false) // the failing index lies beyond the operation
	}
	zzReach("C08.fail.injected")
	after := zzExpectedAfter(before, op)
	if ended {
		// the replica chose to exit (logrus.Fatalf): the directory must still be consistent
		zzReach("C08.fail.exit")
		zzReopenCheck("C08.fail-exit."+opname, fs, before, after)
		return
	}
	mem := zzMemDigest(rn)
	if err == nil {
		zzReach("C08.fail.tolerated")
		// success means durable: whatever the failing call was, no directory update of this
		// operation may be left unflushed (a failed fsync of the directory leaves it so)
		// (a failed fsync of the directory leaves updates unflushed: then the state the last
		// successful fsync made durable must already be the operation's result.  Cleanup
		// that is merely not flushed - the old head's name after a snapshot - is residue a
		// reopen tolerates)
		if fs.DirDirty {
			zzReach("C08.fail.tolerated-unflushed")
			fs.PowerLoss()
			zzReopenCheck("C08.fail-success."+opname+".not-durable", fs, after)
			return
		}
		r2 := zzReopenCheck("C08.fail-success."+opname, fs, after)
		if r2 != nil && op != 7 {
			zzAssert(zzSameLinks(zzMemDigest(r2), mem), "C08.fail-success."+opname+".live-chain-disagrees-with-directory")
		}
	} else {
		zzReach("C08.fail.reported")
		r2 := zzReopenCheck("C08.fail-reported."+opname, fs, before, after)
		if r2 != nil && op != 7 {
			zzAssert(zzSameLinks(zzMemDigest(r2), mem), "C08.fail-reported."+opname+".live-chain-disagrees-with-directory")
		}
	}
}

// Crash residue as a pre-state: an operation is cut short at any mutating step, the
// directory is reopened, and the replica keeps working on top of whatever the dead
// process left behind (temp files, links, a half-made head): further writes and
// snapshots - including a retry of the interrupted snapshot under the same name - and a
// final clean reopen must still show a well-formed chain and every acknowledged block.
func ZZ_C08_CrashResidue() {
	fs := zzInstallFS()
	r := zzPreState(fs, 1)
	model := make([]byte, zzBlocks)
	write := func(rep *Replica, blk int, tag byte) {
		buf := make([]byte, 4096)
		buf[0], buf[4095] = tag, tag
		_, werr := rep.WriteAt(buf, int64(blk)*4096)
		zzAssert(werr == nil, "C08.residue.write-failed")
		model[blk] = tag
	}
	write(r, 0, 'A')
	total := zzParam("MAXSTEPS", 40)
	crashAt := zzConcretize(zzChoice("crashAt", total))
	fs.MutSteps = 0
	fs.CrashAt = crashAt
	op := 0
	if zzNondetBool("interrupted-revert") {
		op = 2
	}
	zzTrapFatal()
	zzTry(func() { zzRunC08Op(r, op, 1) })
	if !fs.Dead {
		zzAssume(false) // crash index beyond the operation
	}
	fs.Revive()
	r2, err := zzOpenReplica()
	zzAssert(err == nil && r2 != nil, "C08.residue.reopen-after-crash-failed")
	if r2 == nil {
		return
	}
	r2.mode = types.RW
	if op == 2 {
		// a completed revert discards the head's data by design
		ch, _ := r2.Chain()
		if len(ch) > 0 && ch[0] != "volume-head-001.img" {
			model[0] = 0
		}
	}
	tag := byte('B')
	steps := zzParam("K", 3)
	for i := 0; i < steps; i++ {
		switch zzConcretize(zzChoice("step", 3)) {
		case 0:
			write(r2, zzConcretize(zzChoice("blk", 2)), tag)
			tag++
		case 1:
			r2.Snapshot("y", zzNondetBool("user.y"), "t") // may be refused (name in use)
		default:
			// the interrupted snapshot is retried under its name; a first refusal that
			// cleans up the leftovers is acceptable, so it is tried twice
			if r2.Snapshot("new", zzNondetBool("user.new"), "t") != nil {
				r2.Snapshot("new", false, "t")
			}
			zzReach("C08.residue.retried")
		}
		zzWellFormed("C08.residue.live", r2)
	}
	write(r2, 1, 'Z')
	zzAssume(r2.Close() == nil)
	fs.Revive()
	r3, oerr := zzOpenReplica()
	zzAssert(oerr == nil && r3 != nil, "C08.residue.final-reopen-failed")
	if r3 == nil {
		return
	}
	zzWellFormed("C08.residue.reopened", r3)
	zzAssume(PreloadLunMap(&r3.volume) == nil)
	for blk := 0; blk < 2; blk++ {
		rb := make([]byte, 4096)
		_, rerr := r3.ReadAt(rb, int64(blk)*4096)
		zzAssert(rerr == nil, "C08.residue.read-failed")
		zzAssert(rb[0] == model[blk] && rb[4095] == model[blk], "C08.residue.acknowledged-data-lost-after-reopen")
	}
	zzReach("C08.residue.done")
}

// A failed operation is retried: one file-system call of the operation fails, the
// failure is reported, and the same request is sent again (what the controller and the
// sync code do).  If the retry reports success, its effect is on disk: a fresh process
// opening the directory - no orderly close in between - sees the live replica's chain,
// attributes, size and checkpoint.
func ZZ_C08_FailThenRetry() {
	fs, r, op, snaps := zzC08Setup()
	if op == 7 {
		return // Close: nothing to retry on a closed replica
	}
	total := zzParam("MAXSTEPS", 60)
	fs.Steps = 0
	fs.FailAt = zzConcretize(zzChoice("failAt", total))
	opname := zzC08Ops[op]
	zzTrapFatal()
	var err error
	rn := r
	ended := zzTry(func() { err, rn = zzRunC08Op(r, op, snaps) })
	if !fs.Failed {
		zzAssume(false)
	}
	if ended || err == nil {
		return // exit, or the failure was tolerated: covered by ZZ_C08_Fail
	}
	fs.FailAt = -1
	fs.Failed = false
	if zzNondetBool("then-another-request") {
		// instead of a retry, the replica goes on to serve another metadata-writing request
		// (or is closed in an orderly way, which rewrites volume.meta as well): whatever it
		// writes must describe the directory as it is - a fresh process opens it and finds
		// the chain from before or after the failed operation
		before := zzMemDigest(rn)
		_ = before
		var err3 error
		other := zzConcretize(zzChoice("other", 3))
		ended3 := zzTry(func() {
			switch other {
			case 0:
				err3 = rn.SetRebuilding(false)
			case 1:
				err3 = rn.SetCheckpoint("")
			default:
				err3 = rn.Close()
			}
		})
		if ended3 || err3 != nil {
			return
		}
		zzReach("C08.fail-then-other")
		fs.Revive()
		rr, oerr := zzOpenReplica()
		zzAssert(oerr == nil && rr != nil, "C08.failed-"+opname+"-then-metadata-write.directory-does-not-reopen")
		if rr != nil {
			zzWellFormed("C08.failed-"+opname+"-then-metadata-write.reopened", rr)
		}
		return
	}
	var err2 error
	rn2 := rn
	ended2 := zzTry(func() { err2, rn2 = zzRunC08Op(rn, op, snaps) })
	zzAssert(!ended2, "C08.retry."+opname+"-terminated-the-process-without-a-fault")
	if ended2 || err2 != nil {
		zzReach("C08.retry.refused")
		return
	}
	zzReach("C08.retry.accepted")
	live := zzMemDigest(rn2)
	zzReopenCheck("C08.retry-success."+opname, fs, live)
}
