package replica

import (
	inject "github.com/openebs/jiva/error-inject"
	"github.com/openebs/jiva/types"
)

// C06 / C07 (rebuild bookkeeping against a moving chain): Server.UpdateLUNMap copies the
// volume, releases the server lock for the extent preload and re-takes it for the merge.
// Everything the replica accepts in that window - a snapshot (user-created or not) and
// writes, through the real Server.Snapshot / Server.WriteAt over the directory model -
// must leave every user-created snapshot's file untouched by the merge's hole punching,
// and the live volume reading what was written.

// zzSnapImage: what a revert to chain member k reads: per block the newest of files
// 1..k holding it (first byte of the block stands for the block), zero if none
func zzSnapImage(d *diffDisk, k int) []byte {
	im := make([]byte, zzBlocks)
	for blk := 0; blk < zzBlocks; blk++ {
		for j := 1; j <= k; j++ {
			b := d.files[j].(*zzBlob)
			if b.present[blk] {
				im[blk] = b.data[blk*4096]
			}
		}
	}
	return im
}

func zzFullBlock(tag byte) []byte {
	buf := make([]byte, 4096)
	buf[0], buf[2048], buf[4095] = tag, tag, tag
	return buf
}

func ZZ_C06_SnapshotDuringMerge() {
	fs := zzInstallFS()
	_ = fs
	r, err := zzOpenReplica()
	zzAssume(err == nil)
	r.mode = types.WO // a rebuilding replica: receives writes, no revision counting
	s := &Server{Dir: zzDir, defaultSectorSize: 4096, MonitorChannel: make(chan struct{}), r: r}
	model := make([]byte, zzBlocks)
	write := func(blk int, tag byte) {
		_, werr := s.WriteAt(zzFullBlock(tag), int64(blk)*4096)
		zzAssert(werr == nil, "C06.merge.write-failed")
		model[blk] = tag
	}
	// history before the merge: data, a snapshot (user-created or not), more data
	write(0, 'A')
	write(1, 'B')
	zzAssume(s.Snapshot("s0", zzNondetBool("user0"), "t") == nil)
	if zzNondetBool("write.before") {
		write(zzConcretize(zzChoice("before.blk", zzBlocks)), 'C')
	}
	types.ShouldPunchHoles = true
	images := map[*zzBlob][]byte{}
	captureSnapshots := func() {
		// the image of every chain member that is no longer the head, recorded once
		for k := 1; k < len(r.volume.files)-1; k++ {
			b := r.volume.files[k].(*zzBlob)
			if _, ok := images[b]; !ok {
				images[b] = zzSnapImage(&r.volume, k)
			}
		}
	}
	captureSnapshots()
	snapDuring := zzNondetBool("snapshot.during")
	userDuring := zzNondetBool("user.during")
	writesDuring := zzConcretize(zzChoice("writes.during", 3))
	inject.ZZUpdateLUNMapHook = func() {
		if snapDuring {
			zzAssume(s.Snapshot("u1", userDuring, "t") == nil)
			captureSnapshots()
			zzReach("C06.merge.snapshot-in-window")
		}
		for i := 0; i < writesDuring; i++ {
			write(zzConcretize(zzChoice("during.blk", zzBlocks)), byte('D'+i))
		}
	}
	uerr := s.UpdateLUNMap()
	inject.ZZUpdateLUNMapHook = nil
	zzAssert(uerr == nil, "C06.merge.UpdateLUNMap-error")
	zzSettle() // the hole worker applies what the merge queued
	d := &r.volume
	// every user-created snapshot still holds the image it captured
	for k := 1; k < len(d.files)-1; k++ {
		want := images[d.files[k].(*zzBlob)]
		got := zzSnapImage(d, k)
		same := true
		for blk := 0; blk < zzBlocks; blk++ {
			same = same && got[blk] == want[blk]
		}
		zzAssert(!d.UserCreatedSnap[k] || same, "C06.merge.user-snapshot-image-changed-by-rebuild-bookkeeping")
	}
	// the live volume reads what was written
	rb := make([]byte, zzBlocks*4096)
	n, rerr := s.ReadAt(rb, 0)
	zzAssert(rerr == nil && n == len(rb), "C06.merge.read-error")
	for blk := 0; blk < zzBlocks; blk++ {
		zzAssert(rb[blk*4096] == model[blk] && rb[blk*4096+2048] == model[blk] && rb[blk*4096+4095] == model[blk], "C07.merge.volume-reads-wrong-data-after-UpdateLUNMap")
	}
	zzWellFormed("C06.merge", r)
	zzReach("C06.merge.done")
}

// C06 (a snapshot holds the image of the moment it was taken, also when its name had been
// used before): snapshots a and b with data, a revert to a (b's files stay in the
// directory, outside the chain), more writes, then a snapshot under a fresh name or
// under the orphaned name b - retried once when the first attempt is refused and cleans
// up.  Reverting to the new snapshot reads exactly the image recorded when it was taken.
func ZZ_C06_NameReuseAfterRevert() {
	fs := zzInstallFS()
	_ = fs
	r, err := zzOpenReplica()
	zzAssume(err == nil)
	r.mode = types.RW
	model := make([]byte, zzBlocks)
	write := func(rep *Replica, blk int, tag byte) {
		buf := make([]byte, 4096)
		buf[0], buf[4095] = tag, tag
		_, werr := rep.WriteAt(buf, int64(blk)*4096)
		zzAssert(werr == nil, "C06.reuse.write-failed")
		model[blk] = tag
	}
	write(r, 0, 'A')
	zzAssume(r.Snapshot("a", true, "t") == nil)
	imgA := []byte{model[0], model[1]}
	write(r, 1, 'B')
	zzAssume(r.Snapshot("b", zzNondetBool("user.b"), "t") == nil)
	write(r, 0, 'C')
	rn, rerr := r.Revert("volume-snap-a.img", "t")
	zzAssume(rerr == nil && rn != nil)
	r = rn
	r.mode = types.RW
	copy(model, imgA)
	write(r, zzConcretize(zzChoice("blk", 2)), 'D')
	name := "fresh"
	if zzNondetBool("reuse-orphaned-name") {
		name = "b"
		zzReach("C06.reuse.orphaned-name")
	}
	user := zzNondetBool("user.new")
	serr := r.Snapshot(name, user, "t")
	if serr != nil {
		serr = r.Snapshot(name, user, "t") // the first refusal removed the leftovers
	}
	if serr != nil {
		zzReach("C06.reuse.refused")
		return
	}
	want := []byte{model[0], model[1]}
	write(r, 1, 'E')
	r2, verr := r.Revert(GenerateSnapshotDiskName(name), "t")
	zzAssert(verr == nil && r2 != nil, "C06.reuse.revert-to-the-new-snapshot-failed")
	if r2 == nil {
		return
	}
	rb := make([]byte, 2*4096)
	_, e := r2.ReadAt(rb, 0)
	zzAssert(e == nil, "C06.reuse.read-failed")
	zzAssert(rb[0] == want[0] && rb[4096] == want[1], "C06.reuse.snapshot-does-not-hold-the-image-of-the-moment-it-was-taken")
	zzWellFormed("C06.reuse", r2)
	zzReach("C06.reuse.done")
}

// C06 (what a reverted replica serves after the next restart or reload): through the
// server - the way the REST revert arrives - revert to snapshot a, then either reload,
// crash and reopen, or close cleanly and reopen: every time the volume reads exactly the
// image snapshot a holds, and the directory opens.
func ZZ_C06_RevertThenRestart() {
	fs := zzInstallFS()
	ActionChannel = make(chan string, 5)
	r, err := zzOpenReplica()
	zzAssume(err == nil)
	r.mode = types.RW
	s := &Server{Dir: zzDir, defaultSectorSize: 4096, MonitorChannel: make(chan struct{}), r: r}
	write := func(blk int, tag byte) {
		buf := make([]byte, 4096)
		buf[0], buf[4095] = tag, tag
		_, werr := s.WriteAt(buf, int64(blk)*4096)
		zzAssume(werr == nil)
	}
	write(0, 'A')
	zzAssume(s.Snapshot("a", true, "t") == nil)
	write(1, 'B')
	if zzNondetBool("second-snapshot") {
		zzAssume(s.Snapshot("b", zzNondetBool("user.b"), "t") == nil)
		write(0, 'C')
	}
	zzAssume(s.Revert("volume-snap-a.img", "t") == nil)
	live := s
	switch zzConcretize(zzChoice("then", 4)) {
	case 0:
		zzReach("C06.revert-restart.reload")
		zzAssert(s.Reload() == nil, "C06.revert-restart.reload-after-revert-failed")
	case 1:
		zzReach("C06.revert-restart.crash")
		fs.Revive()
		live = &Server{Dir: zzDir, defaultSectorSize: 4096, MonitorChannel: make(chan struct{})}
		zzAssert(live.Open() == nil, "C06.revert-restart.reopen-after-revert-and-crash-failed")
	case 2:
		zzReach("C06.revert-restart.clean")
		zzAssume(s.Close() == nil)
		fs.Revive()
		live = &Server{Dir: zzDir, defaultSectorSize: 4096, MonitorChannel: make(chan struct{})}
		zzAssert(live.Open() == nil, "C06.revert-restart.reopen-after-revert-and-close-failed")
	default:
		zzReach("C06.revert-restart.stay")
	}
	if live.r == nil {
		return
	}
	rb := make([]byte, 2*4096)
	_, rerr := live.ReadAt(rb, 0)
	zzAssert(rerr == nil, "C06.revert-restart.read-failed")
	zzAssert(rb[0] == 'A' && rb[4096] == 0, "C06.revert-restart.volume-does-not-read-the-snapshot's-image")
	ch, cerr := live.r.Chain()
	zzAssert(cerr == nil && len(ch) == 2 && ch[1] == "volume-snap-a.img", "C06.revert-restart.chain-is-not-head-over-the-snapshot")
	zzReach("C06.revert-restart.done")
}
