package replica

import (
	"github.com/openebs/jiva/types"
	"github.com/openebs/jiva/zzfs"
)

// C10 — the revision counter counts applied writes exactly and never goes back.
// C17 — replica operations are gated by mode and state.

func zzHeadBlob(r *Replica) *zzBlob {
	return r.volume.files[len(r.volume.files)-1].(*zzBlob)
}

func zzCell() int64 { return zzfs.Cur.Entries[revisionCounterFile].Ctr }

var zzModes = []types.Mode{types.RW, types.WO, types.INIT, types.CLOSED}

// {offset inside the block, length}
var zzWriteShapes = [][2]int{{0, 4096}, {0, 8192}, {512, 512}, {0, 1024}, {100, 6000}}

// one WriteAt from an arbitrary counter value, mode, and fault assignment
func ZZ_C10_WriteStep() {
	fs := zzInstallFS()
	r := zzPreState(fs, zzConcretize(zzChoice("snaps", 2)))
	c0 := zzNondetInt64("counter")
	zzAssume(zzAnd(c0 >= 0, c0 < 9223372036854775807))
	fs.Entries[revisionCounterFile].Ctr = c0
	r.revisionCache = c0
	mode := zzModes[zzConcretize(zzChoice("mode", len(zzModes)))]
	r.mode = mode
	// the persisted rebuilding marker is cleared by the sync task only after the controller
	// has promoted the replica (RW + counter equalised): RW with the marker still set is a
	// state every rebuild passes through, and writes arriving in it count
	r.info.Rebuilding = zzNondetBool("rebuilding-marker-still-set")
	head := zzHeadBlob(r)
	head.failNextWrite = zzNondetBool("data.write.fails")
	dataFails := head.failNextWrite
	zzCounterWriteFails = zzNondetBool("counter.write.fails")
	// the shape of the write: whole blocks, a sub-block write (read-modify-write of one
	// block), an unaligned write spanning blocks
	shape := zzWriteShapes[zzConcretize(zzChoice("shape", len(zzWriteShapes)))]
	buf := make([]byte, shape[1])
	buf[0], buf[len(buf)-1] = 0xAB, 0xCD
	off := int64(zzConcretize(zzChoice("block", zzBlocks)))*4096 + int64(shape[0])
	if off+int64(len(buf)) > int64(zzBlocks)*4096 {
		return
	}
	before := head.data[off]
	// a status query (every REST GET of the replica, every snapshot) may have hit a
	// failing read of revision.counter just before: it reports -1 and changes nothing
	if zzNondetBool("status-query-with-failing-counter-read") {
		zzCounterReadFails = true
		v := r.GetRevisionCounter()
		zzCounterReadFails = false
		zzAssert(v == -1, "C10.failed-counter-read-not-reported-as-minus-one")
		zzAssert(zzCell() == c0 && r.revisionCache == c0, "C10.failed-counter-read-changed-the-counter")
	}
	n, err := r.WriteAt(buf, off)
	cell, cache := zzCell(), r.revisionCache
	switch {
	case dataFails:
		zzReach("C10.data-write-failed")
		zzAssert(err != nil, "C10.failed-data-write-reported-ok")
		zzAssert(cell == c0 && cache == c0, "C10.counter-changed-by-failed-write")
	case mode == types.RW && !zzCounterWriteFails:
		zzReach("C10.rw-write")
		zzAssert(err == nil && n >= len(buf), "C10.rw-write-failed") // a sub-block write reports the block size
		zzAssert(cell == c0+1, "C10.persisted-counter-not-incremented-by-one")
		zzAssert(cache == c0+1, "C10.cached-counter-not-incremented-by-one")
	case mode == types.RW && zzCounterWriteFails:
		zzReach("C10.counter-write-failed")
		zzAssert(err != nil, "C10.failed-counter-write-reported-ok")
		zzAssert(cache == c0 && cell == c0, "C10.counter-changed-although-its-write-failed")
	case mode == types.WO:
		zzReach("C10.wo-write")
		zzAssert(err == nil && n >= len(buf), "C10.wo-write-failed")
		zzAssert(cell == c0 && cache == c0, "C10.counter-changed-by-write-while-rebuilding")
	default:
		zzReach("C17.write-in-invalid-mode")
		zzAssert(err != nil, "C17.write-accepted-in-mode-other-than-RW-WO")
		zzAssert(cell == c0 && cache == c0, "C10.counter-changed-by-refused-write")
		zzAssert(head.data[off] == before && head.writes == 0, "C17.refused-write-changed-the-volume")
	}
	zzAssert(cell >= c0 && cache >= c0, "C10.counter-went-back")
	// a reopen (initRevisionCounter) reads back the persisted value
	zzCounterWriteFails = false
	fs.Revive()
	r2, oerr := zzOpenReplica()
	zzAssert(oerr == nil, "C10.reopen-failed")
	if r2 != nil {
		zzAssert(r2.revisionCache == cell, "C10.reopen-reads-different-counter")
		zzAssert(r2.GetRevisionCounter() == cell, "C10.GetRevisionCounter-differs")
	}
}

// SetRevisionCounter is refused unless RW; accepted value is persisted exactly
func ZZ_C10_SetCounter() {
	fs := zzInstallFS()
	r := zzPreState(fs, 0)
	c0 := zzNondetInt64("counter")
	fs.Entries[revisionCounterFile].Ctr = c0
	r.revisionCache = c0
	mode := zzModes[zzConcretize(zzChoice("mode", len(zzModes)))]
	r.mode = mode
	v := zzNondetInt64("value")
	zzAssume(v >= 0)
	err := r.SetRevisionCounter(v)
	if mode != types.RW {
		zzReach("C17.setcounter-refused")
		zzAssert(err != nil, "C17.SetRevisionCounter-accepted-unless-RW")
		zzAssert(zzCell() == c0 && r.revisionCache == c0, "C17.refused-SetRevisionCounter-changed-the-counter")
	} else {
		zzReach("C10.setcounter")
		zzAssert(err == nil, "C10.SetRevisionCounter-failed")
		zzAssert(zzCell() == v && r.revisionCache == v, "C10.SetRevisionCounter-value-not-stored")
	}
}

// two concurrent writers: +2
func ZZ_C10_TwoWriters() {
	fs := zzInstallFS()
	r := zzPreState(fs, 0)
	c0 := zzNondetInt64("counter")
	zzAssume(zzAnd(c0 >= 0, c0 < 9223372036854775800))
	fs.Entries[revisionCounterFile].Ctr = c0
	r.revisionCache = c0
	done := make(chan error, 2)
	for k := 0; k < 2; k++ {
		go func(k int) {
			buf := make([]byte, 4096)
			_, err := r.WriteAt(buf, int64(k)*4096)
			done <- err
		}(k)
	}
	e1 := <-done
	e2 := <-done
	zzAssert(e1 == nil && e2 == nil, "C10.concurrent-write-failed")
	zzAssert(zzCell() == c0+2 && r.revisionCache == c0+2, "C10.two-writes-did-not-count-two")
	zzReach("C10.two-writers")
}

// C17: snapshot removal operations are refused unless RW, without side effects
func ZZ_C17_RemovalGate() {
	fs := zzInstallFS()
	r := zzPreState(fs, 3)
	mode := zzModes[zzConcretize(zzChoice("mode", len(zzModes)))]
	r.mode = mode
	before := zzMemDigest(r)
	steps := fs.MutSteps
	op := zzConcretize(zzChoice("op", 3))
	var err error
	switch op {
	case 0:
		_, err = r.PrepareRemoveDisk("volume-snap-b.img")
	case 1:
		err = r.RemoveDiffDisk("volume-snap-b.img")
	default:
		err = r.ReplaceDisk("volume-snap-b.img", "volume-snap-a.img")
	}
	if mode != types.RW {
		zzReach("C17.removal-refused")
		zzAssert(err != nil, "C17.snapshot-removal-accepted-unless-RW")
		zzAssert(fs.MutSteps == steps, "C17.refused-removal-touched-the-directory")
		zzAssert(zzSameAttrs(before, zzMemDigest(r)), "C17.refused-removal-changed-the-chain")
	} else {
		zzReach("C17.removal-rw")
	}
}

// C17: a closed server (s.r == nil) serves no I/O and no management operation
func ZZ_C17_ClosedServer() {
	fs := zzInstallFS()
	r := zzPreState(fs, 1)
	r.Close()
	s := &Server{Dir: zzDir, defaultSectorSize: 4096}
	steps := fs.MutSteps
	buf := make([]byte, 4096)
	op := zzConcretize(zzChoice("op", 14))
	var err error
	switch op {
	case 0:
		_, err = s.WriteAt(buf, 0)
	case 1:
		_, err = s.ReadAt(buf, 0)
	case 2:
		_, err = s.Sync()
	case 3:
		_, err = s.Unmap(0, 4096)
	case 4:
		err = s.Snapshot("x", true, "t")
	case 5:
		err = s.RemoveDiffDisk("volume-snap-a.img")
	case 6:
		err = s.ReplaceDisk("a", "b")
	case 7:
		_, err = s.PrepareRemoveDisk("volume-snap-a.img")
	case 8:
		err = s.Revert("volume-snap-a.img", "t")
	case 9:
		err = s.Resize("16K")
	case 10:
		err = s.SetRebuilding(true)
	case 11:
		err = s.SetReplicaMode("RW")
	case 12:
		err = s.SetRevisionCounter(5)
	default:
		err = s.SetCheckpoint("volume-snap-a.img")
	}
	zzAssert(err != nil, "C17.closed-replica-accepted-an-operation")
	zzAssert(fs.MutSteps == steps, "C17.closed-replica-touched-the-directory")
	zzAssert(zzLockDepth(&s.RWMutex) == 0, "C17.lock-left-held")
	st, _ := s.Status()
	zzAssert(st == Closed, "C17.closed-replica-reports-other-state")
	zzReach("C17.closed")
}


// A replica can be attached (opened) only while it is closed: Open on a server that
// already holds an open replica - clean, dirty or rebuilding, in any mode - is refused
// and leaves the attached replica, its mode and the directory as they were; Create on
// it changes nothing either.
func ZZ_C17_AttachOnce() {
	state := zzPick("state", "open", "dirty", "rebuilding")
	s, fs := ZZServer(state, zzConcretize(zzChoice("snaps", 2)))
	r := s.r
	mode := zzModes[zzConcretize(zzChoice("mode", 3))] // RW, WO, INIT
	r.mode = mode
	if state == "dirty" && zzNondetBool("dirtied-by-write") && mode != types.INIT {
		// dirty because it took I/O in this session
		buf := make([]byte, 4096)
		s.WriteAt(buf, 0)
	}
	before := zzMemDigest(r)
	steps := fs.MutSteps
	var err error
	if zzNondetBool("create") {
		err = s.Create(zzSize)
		zzReach("C17.attach-once.create")
	} else {
		err = s.Open()
		zzReach("C17.attach-once.open")
		zzAssert(err != nil, "C17.Open-accepted-on-an-attached-replica")
	}
	_ = err
	zzAssert(s.r == r, "C17.attached-replica-replaced")
	zzAssert(r.mode == mode, "C17.refused-attach-changed-the-mode")
	zzAssert(zzSameAttrs(before, zzMemDigest(r)), "C17.refused-attach-changed-the-chain")
	zzAssert(fs.MutSteps == steps, "C17.refused-attach-touched-the-directory")
	zzAssert(zzLockDepth(&s.RWMutex) == 0, "C17.attach-once.lock-left-held")
}


// a status query (GetRevisionCounter: REST GET, rebuild verification) overlapping a
// write: the query's disk read is a scheduling point, the write arrives there. Counting
// stays exact (the query must not put a stale value into the cache) and the query
// reports a value the counter really had.
func ZZ_C10_ReaderWriter() {
	fs := zzInstallFS()
	r := zzPreState(fs, 0)
	c0 := zzNondetInt64("counter")
	zzAssume(zzAnd(c0 >= 0, c0 < 9223372036854775800))
	fs.Entries[revisionCounterFile].Ctr = c0
	r.revisionCache = c0
	r.mode = types.RW
	gate := make(chan struct{})
	opened := false
	done := make(chan error, 1)
	go func() {
		<-gate // the write arrives while the query is reading the counter file
		buf := make([]byte, 4096)
		_, err := r.WriteAt(buf, 0)
		done <- err
	}()
	zzOnCounterIO = func() {
		if !opened {
			opened = true
			close(gate)
		}
		zzYield()
	}
	got := r.GetRevisionCounter()
	zzOnCounterIO = nil
	zzSettle()
	zzAssert(len(done) == 1, "C10.reader-writer.write-did-not-finish")
	e1 := <-done
	zzAssert(e1 == nil, "C10.reader-writer.write-failed")
	zzAssert(zzOr(got == c0, got == c0+1), "C10.reader-writer.query-reports-a-value-the-counter-never-had")
	zzAssert(zzCell() == c0+1 && r.revisionCache == c0+1, "C10.reader-writer.count-wrong-after-overlapping-query")
	// the next write counts from the true value
	buf := make([]byte, 4096)
	_, e2 := r.WriteAt(buf, 4096)
	zzAssert(e2 == nil, "C10.reader-writer.second-write-failed")
	zzAssert(zzCell() == c0+2 && r.revisionCache == c0+2, "C10.reader-writer.increment-lost-after-overlapping-query")
	zzReach("C10.reader-writer.done")
}

// C17 (attachment outlives a failing operation): a management operation on an open
// (attached) server fails because one file-system call fails.  The server must still
// hold its replica - only close / delete detach it - so the status it reports is not
// "closed" and a second Open is refused: a replica that was never closed cannot be
// attached again.
func ZZ_C17_FailedOpKeepsAttachment() {
	s, fs := ZZServer("open", 2)
	r := s.r
	r.mode = types.RW
	op := zzConcretize(zzChoice("op", 10))
	c0 := zzCell()
	entries0 := len(fs.Entries)
	fs.Steps = 0
	fs.FailAt = zzConcretize(zzChoice("failAt", 40))
	zzTrapFatal()
	var err error
	opname := ""
	ended := zzTry(func() {
		switch op {
		case 0:
			opname = "Reload"
			err = s.Reload()
		case 1:
			opname = "Revert"
			err = s.Revert("volume-snap-a.img", "t")
		case 2:
			opname = "Snapshot"
			err = s.Snapshot("n", zzNondetBool("user"), "t")
		case 3:
			opname = "Resize"
			err = s.Resize("32K")
		case 4:
			opname = "SetRebuilding"
			err = s.SetRebuilding(true)
		case 5:
			opname = "SetCheckpoint"
			err = s.SetCheckpoint("volume-snap-a.img")
		case 6:
			opname = "RemoveDiffDisk"
			err = s.RemoveDiffDisk("volume-snap-a.img")
		case 7:
			opname = "Close"
			err = s.Close()
		case 8:
			opname = "Delete"
			err = s.Delete()
		default:
			opname = "DeleteAll"
			err = s.DeleteAll()
		}
	})
	if !fs.Failed {
		zzAssume(false) // the failing index lies beyond the operation
	}
	if ended {
		return // the replica process chose to exit: nothing is attached any more
	}
	fs.Revive()
	zzReach("C17.failed-op.injected")
	if err != nil {
		zzReach("C17.failed-op.reported")
	}
	if opname == "Delete" || opname == "DeleteAll" {
		// a delete closes the replica first and then unlinks its files.  Once unlinking has
		// begun the server no longer has a replica: it does not report open / dirty /
		// rebuilding for files that are going away (those states advertise the actions of an
		// open replica and never "open" again), and no metadata update writes a deleted
		// replica's volume.meta back.  (When the close itself failed nothing was unlinked and
		// the replica is still held, as after a failed Close.)
		if len(fs.Entries) < entries0 {
			zzReach("C17.failed-delete.unlinking-began")
			st, _ := s.Status()
			zzAssert(st != Open && st != Dirty && st != Rebuilding, "C17.server-reports-"+string(st)+"-for-a-replica-being-deleted-after-failed-"+opname)
			n := len(fs.Entries)
			zzAssert(s.SetCheckpoint("volume-snap-a.img") != nil, "C17.SetCheckpoint-accepted-after-failed-"+opname)
			zzAssert(s.SetRebuilding(true) != nil, "C17.SetRebuilding-accepted-after-failed-"+opname)
			zzAssert(len(fs.Entries) <= n, "C17.files-of-a-deleted-replica-written-back-after-failed-"+opname)
			buf := make([]byte, 4096)
			_, werr := s.WriteAt(buf, 0)
			zzAssert(werr != nil, "C17.write-accepted-after-failed-"+opname)
		} else {
			zzReach("C17.failed-delete.nothing-unlinked")
		}
		zzAssert(zzLockDepth(&s.RWMutex) == 0, "C17.failed-op.lock-left-held")
		return
	}
	if opname == "Close" {
		// a close that failed half-way (data files closed, metadata rewrite failed): the
		// replica is either detached or, if the server still holds it for a retry, gated
		// like a closed one: no write, no counter update, no snapshot removal
		if err != nil && s.r != nil {
			zzReach("C17.failed-close.still-held")
			buf := make([]byte, 4096)
			_, werr := s.WriteAt(buf, 0)
			zzAssert(werr != nil, "C17.write-accepted-after-failed-close")
			zzAssert(s.SetRevisionCounter(c0+5) != nil, "C17.SetRevisionCounter-accepted-after-failed-close")
			zzAssert(zzCell() == c0, "C17.revision-counter-changed-after-failed-close")
			_, perr := s.PrepareRemoveDisk("volume-snap-b.img")
			zzAssert(perr != nil, "C17.PrepareRemoveDisk-accepted-after-failed-close")
			zzAssert(s.RemoveDiffDisk("volume-snap-a.img") != nil, "C17.RemoveDiffDisk-accepted-after-failed-close")
		}
		return
	}
	zzAssert(s.r != nil, "C17.failed-"+opname+"-detached-the-replica-without-closing-it")
	if s.r == nil {
		st, _ := s.Status()
		zzAssert(st != Closed && st != Initial, "C17.server-reports-closed-after-failed-"+opname)
		return
	}
	st, _ := s.Status()
	zzAssert(st != Closed && st != Initial, "C17.server-reports-closed-after-failed-"+opname)
	held := s.r
	oerr := s.Open()
	zzAssert(oerr != nil, "C17.Open-accepted-after-failed-"+opname)
	zzAssert(s.r == held, "C17.attached-replica-replaced-after-failed-"+opname)
	zzAssert(zzLockDepth(&s.RWMutex) == 0, "C17.failed-op.lock-left-held")
}
