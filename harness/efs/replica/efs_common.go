package replica

//zz:rt

import (
	"github.com/openebs/jiva/types"
	"github.com/openebs/jiva/zzfs"
	"github.com/openebs/sparse-tools/sparse"
)

// ---- redirect targets living in package replica ----

const zzDir = "/zzreplica"
const zzBlocks = 2 // data files of the directory-level harnesses have 2 blocks of 4 KiB

// (*Replica).openFile: sparse.NewDirectFileIoProcessor(path, O_RDWR|flag, perm, isCreate=true):
// opens the data file, creating it when missing, truncating it with O_TRUNC.
func zzOpenFile(r *Replica, name string, flag int) (types.DiffDisk, error) {
	f, err := zzfs.OpenFile(r.diskPath(name), 0x2|0x40|flag, 0666) // O_RDWR|O_CREATE|flag
	if err != nil {
		return nil, err
	}
	zzfs.FileClose(f)
	ino := zzfs.Cur.Entries[name]
	if ino.Data == nil || flag&0x200 != 0 { // O_TRUNC
		ino.Data = zzNewBlob(zzBlocks)
	}
	return ino.Data.(*zzBlob), nil
}

func zzOpenRevisionFile(r *Replica, isCreate bool) error {
	flag := 0x2
	if isCreate {
		flag |= 0x40
	}
	f, err := zzfs.OpenFile(r.diskPath(revisionCounterFile), flag, 0600)
	if err != nil {
		return err
	}
	zzfs.FileClose(f)
	r.revisionFile = &sparse.DirectFileIoProcessor{}
	return nil
}

var zzCounterReadFails, zzCounterWriteFails bool

// zzOnCounterIO, when set, runs at the start of every read / write of the counter file
// (real disk I/O, i.e. a scheduling point)
var zzOnCounterIO func()

func zzReadRevisionCounter(r *Replica) (int64, error) {
	if r.revisionFile == nil {
		return 0, zzErr("BUG: revision file wasn't initialized")
	}
	ino := zzfs.Cur.Entries[revisionCounterFile]
	if ino == nil || zzfs.Cur.Dead {
		return 0, zzErr("fail to read from revision counter file")
	}
	if zzCounterReadFails {
		return 0, zzErr("fail to read from revision counter file")
	}
	v := ino.Ctr
	if zzOnCounterIO != nil {
		zzOnCounterIO() // the value has been read; the caller has not seen it yet
	}
	return v, nil
}

func zzWriteRevisionCounter(r *Replica, counter int64) error {
	if zzOnCounterIO != nil {
		zzOnCounterIO()
	}
	if r.revisionFile == nil {
		return zzErr("BUG: revision file wasn't initialized")
	}
	// one 4 KiB direct write in place: a step that may fail or be the crash point
	f, err := zzfs.OpenFile(r.diskPath(revisionCounterFile), 0x2, 0600)
	if err != nil {
		return zzErr("fail to write to revision counter file")
	}
	zzfs.FileClose(f)
	if err := zzfs.Truncate(r.diskPath(revisionCounterFile), 4096); err != nil {
		return zzErr("fail to write to revision counter file")
	}
	if zzCounterWriteFails {
		return zzErr("fail to write to revision counter file")
	}
	zzfs.Cur.Entries[revisionCounterFile].Ctr = counter
	return nil
}

// (*Server).isExtentSupported probes FIEMAP on a temp file: environment, may fail
var zzExtentsSupported bool // set by a harness whose file system is known to support FIEMAP

func zzIsExtentSupported(s *Server) error {
	if !zzExtentsSupported && zzNondetBool("extents.unsupported") {
		return zzErr("zz: underlying file system does not support extent mapping")
	}
	return nil
}

// (*Server).initUUID derives a UUID with crypto/sha1 and rewrites volume.meta
func zzInitUUID(s *Server) error { return nil }

type zzError struct{ s string }

func (e *zzError) Error() string { return e.s }
func zzErr(s string) error       { return &zzError{s} }

func zzInstallFS() *zzfs.FS {
	fs := zzfs.New(zzDir)
	zzfs.Clone = func(v interface{}) interface{} {
		switch x := v.(type) {
		case *interface{}:
			return zzfs.Clone(*x)
		case *disk:
			c := *x
			return &c
		case *Info:
			c := *x
			return &c
		}
		return nil
	}
	zzfs.Assign = func(dst, src interface{}) bool {
		switch d := dst.(type) {
		case *Info:
			s, ok := src.(*Info)
			if !ok {
				return false
			}
			bf := d.BackingFile
			*d = *s
			d.BackingFile = bf
			return true
		case *disk:
			s, ok := src.(*disk)
			if !ok {
				return false
			}
			*d = *s
			return true
		}
		return false
	}
	zzfs.DataUsed = func(d interface{}) int64 {
		f := d.(*zzBlob)
		var n int64
		for b := 0; b < f.blocks; b++ {
			if f.present[b] {
				n += 4096
			}
		}
		return n
	}
	zzCounterReadFails, zzCounterWriteFails = false, false
	zzOnCounterIO = nil
	zzStartHoleWorker()
	return fs
}

const zzSize = zzBlocks * 4096

// zzOpenReplica: what Server.Open does.
func zzOpenReplica() (*Replica, error) {
	return New(false, zzSize, 4096, zzDir, nil, "")
}

// ---- digests -------------------------------------------------------------

type zzDigestT struct {
	chain   []string
	flags   []disk // per chain member
	inodes  []int  // inode id of each chain member's data file
	size    int64
	cp      string
	head    string
	parent  string
	rebuild bool
	ok      bool
	// expectations computed structurally may leave the (fresh) head unspecified
	wildHead  bool
	wildUser1 bool
}

// zzMemDigest: the chain as the in-memory replica sees it.
func zzMemDigest(r *Replica) zzDigestT {
	var d zzDigestT
	ch, err := r.Chain()
	if err != nil {
		return d
	}
	d.ok = true
	d.chain = ch
	for _, n := range ch {
		dd := r.diskData[n]
		if dd != nil {
			d.flags = append(d.flags, *dd)
		} else {
			d.flags = append(d.flags, disk{})
		}
		id := 0
		if ino := zzfs.Cur.Entries[n]; ino != nil {
			id = ino.ID
		}
		d.inodes = append(d.inodes, id)
	}
	d.size, d.cp, d.head, d.parent, d.rebuild = r.info.Size, r.info.Checkpoint, r.info.Head, r.info.Parent, r.info.Rebuilding
	return d
}

func zzSameChain(a, b zzDigestT) bool {
	if !a.ok || !b.ok || len(a.chain) != len(b.chain) {
		return false
	}
	for i := range a.chain {
		if a.chain[i] != b.chain[i] {
			return false
		}
	}
	return true
}

// zzSameAttrs: same chain, same per-snapshot attributes, same data files.
func zzSameAttrs(a, b zzDigestT) bool {
	if !a.ok || !b.ok || len(a.chain) != len(b.chain) {
		return false
	}
	wild := a.wildHead || b.wildHead
	for i := range a.chain {
		if i == 0 && wild {
			continue // a freshly created head: name and inode are not specified
		}
		if a.chain[i] != b.chain[i] {
			return false
		}
		x, y := a.flags[i], b.flags[i]
		if i == 1 && wild {
			// the member right below a fresh head: its parent link and data file must match,
			// the user flag only when specified
			if a.inodes[i] != b.inodes[i] || x.Removed != y.Removed {
				return false
			}
			if !(a.wildUser1 || b.wildUser1) && x.UserCreated != y.UserCreated {
				return false
			}
			if x.Parent != y.Parent {
				return false
			}
			continue
		}
		if x.Parent != y.Parent || x.Removed != y.Removed || x.UserCreated != y.UserCreated || x.Created != y.Created {
			return false
		}
		// the recorded revision count; a count <= 1 is by design replaced with the current
		// counter when the metadata is read (readDiskData), so it is compared only when set
		if x.RevisionCounter > 1 && y.RevisionCounter > 1 && x.RevisionCounter != y.RevisionCounter {
			return false
		}
		if a.inodes[i] != b.inodes[i] {
			return false
		}
	}
	return a.size == b.size && a.cp == b.cp
}

// zzSameLinks: same chain (names, parent links, data files); attributes aside.
func zzSameLinks(a, b zzDigestT) bool {
	if !zzSameChain(a, b) {
		return false
	}
	for i := range a.chain {
		if a.flags[i].Parent != b.flags[i].Parent || a.inodes[i] != b.inodes[i] {
			return false
		}
	}
	return true
}

// zzWellFormed: the chain is a duplicate-free path head->base inside diskData and
// the parallel structures agree with it; every member has both directory entries.
func zzWellFormed(tag string, r *Replica) {
	ch, err := r.Chain()
	zzAssert(err == nil, tag+".chain-broken")
	if err != nil {
		return
	}
	for i := range ch {
		for j := i + 1; j < len(ch); j++ {
			zzAssert(ch[i] != ch[j], tag+".chain-has-duplicate")
		}
	}
	zzAssert(len(ch) > 0 && ch[0] == r.info.Head, tag+".chain-does-not-start-at-head")
	zzAssert(len(r.activeDiskData) == len(ch)+1, tag+".activeDiskData-length")
	zzAssert(len(r.volume.files) == len(ch)+1, tag+".files-length")
	zzAssert(len(r.volume.UserCreatedSnap) == len(ch)+1, tag+".UserCreatedSnap-length")
	if len(r.activeDiskData) == len(ch)+1 && len(r.volume.UserCreatedSnap) == len(ch)+1 {
		snapIndx := 0
		for i, n := range ch {
			k := len(ch) - i // index in files / activeDiskData
			zzAssert(r.activeDiskData[k] != nil && r.activeDiskData[k].Name == n, tag+".activeDiskData-order")
			dd := r.diskData[n]
			zzAssert(dd != nil, tag+".chain-member-without-diskData")
			if dd != nil {
				zzAssert(r.volume.UserCreatedSnap[k] == dd.UserCreated, tag+".UserCreatedSnap-flag-at-wrong-index")
				if dd.UserCreated && k > snapIndx {
					snapIndx = k
				}
				if i+1 < len(ch) {
					zzAssert(dd.Parent == ch[i+1], tag+".parent-link")
				} else {
					zzAssert(dd.Parent == "", tag+".base-has-parent")
				}
			}
		}
		zzAssert(r.volume.SnapIndx >= snapIndx, tag+".SnapIndx-below-user-snapshot")
	}
	if len(ch) > 1 {
		zzAssert(r.info.Parent == ch[1], tag+".info.Parent")
	}
	// the children relation mirrors the chain: member i is the only child of member i+1
	for i := 1; i < len(ch); i++ {
		kids := r.diskChildrenMap[ch[i]]
		zzAssert(kids[ch[i-1]], tag+".children-map-misses-chain-link")
	}
	for _, n := range ch {
		_, okData := zzfs.Cur.Entries[n]
		_, okMeta := zzfs.Cur.Entries[n+metadataSuffix]
		zzAssert(okData, tag+".chain-member-without-data-file")
		zzAssert(okMeta, tag+".chain-member-without-meta-file")
	}
	// the three in-memory structures agree with each other and with the directory: every
	// disk the replica knows has its files, and the children map is exactly the inverse of
	// the parent links
	for name, dd := range r.diskData {
		_, okData := zzfs.Cur.Entries[name]
		_, okMeta := zzfs.Cur.Entries[name+metadataSuffix]
		zzAssert(okData && okMeta, tag+".known-disk-without-files")
		if dd != nil && dd.Parent != "" {
			zzAssert(r.diskChildrenMap[dd.Parent][name], tag+".children-map-misses-parent-link")
		}
	}
	for p, kids := range r.diskChildrenMap {
		if r.diskData[p] == nil {
			continue // an entry for a disk that is gone is not observable (ListDisks walks diskData)
		}
		for c := range kids {
			dd := r.diskData[c]
			zzAssert(dd != nil && dd.Parent == p, tag+".children-map-has-phantom-child")
		}
	}
}

// zzReopenCheck: a new process opens the directory: it must succeed and see want.
func zzReopenCheck(tag string, fs *zzfs.FS, want ...zzDigestT) *Replica {
	fs.Revive()
	r2, err := zzOpenReplica()
	zzAssert(err == nil && r2 != nil, tag+".reopen-failed")
	if err != nil || r2 == nil {
		return nil
	}
	got := zzMemDigest(r2)
	match := false
	for _, w := range want {
		if zzSameAttrs(got, w) {
			match = true
		}
	}
	zzAssert(match, tag+".reopened-state-is-neither-before-nor-after")
	zzWellFormed(tag+".reopened", r2)
	return r2
}
