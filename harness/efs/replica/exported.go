package replica

import (
	"github.com/openebs/jiva/types"
	"github.com/openebs/jiva/zzfs"
)

// Exported entry points for harnesses living in other packages (sync, rest).

func ZZInstallFS() *zzfs.FS { return zzInstallFS() }

// ZZChainReplica: an RW replica with n snapshots volume-snap-<i>.img (i = 0 is the
// base) built by the real Snapshot, with the given user-created / removed flags.
func ZZChainReplica(user, removed []bool) *Replica {
	r, err := zzOpenReplica()
	if err != nil {
		return nil
	}
	r.mode = types.RW
	names := []string{"0", "1", "2", "3", "4", "5", "6", "7"}
	for i := range user {
		if r.Snapshot(names[i], false, "t") != nil {
			return nil
		}
	}
	for i := range user {
		d := r.diskData[GenerateSnapshotDiskName(names[i])]
		d.UserCreated = user[i]
		d.Removed = removed[i]
	}
	return r
}

// ZZDiskFlags reports (userCreated, removed, parent) of a disk.
func (r *Replica) ZZDiskFlags(name string) (bool, bool, string, bool) {
	d, ok := r.diskData[name]
	if !ok {
		return false, false, "", false
	}
	return d.UserCreated, d.Removed, d.Parent, true
}

func (r *Replica) ZZSetMode(m types.Mode) { r.mode = m }
func (r *Replica) ZZHead() string         { return r.info.Head }
