package replica

import (
	"github.com/openebs/jiva/types"
	"github.com/openebs/jiva/zzfs"
)

// Exported entry points for harnesses living in other packages (sync, rest).

func ZZInstallFS() *zzfs.FS { return zzInstallFS() }

// ZZChainReplica: an RW replica with n snapshots volume-snap-<i>.img (i = 0 is the
// base) built by the real Snapshot, with the given user-created / removed flags.
func ZZChainReplica(user, removed []bool) *Replica {
	r, err := zzOpenReplica()
	if err != nil {
		return nil
	}
	r.mode = types.RW
	names := []string{"0", "1", "2", "3", "4", "5", "6", "7", "8", "9", "10", "11", "12", "13", "14", "15"}
	for i := range user {
		if r.Snapshot(names[i], false, "t") != nil {
			return nil
		}
	}
	for i := range user {
		d := r.diskData[GenerateSnapshotDiskName(names[i])]
		d.UserCreated = user[i]
		d.Removed = removed[i]
	}
	return r
}

// ZZDiskFlags reports (userCreated, removed, parent) of a disk.
func (r *Replica) ZZDiskFlags(name string) (bool, bool, string, bool) {
	d, ok := r.diskData[name]
	if !ok {
		return false, false, "", false
	}
	return d.UserCreated, d.Removed, d.Parent, true
}

func (r *Replica) ZZSetMode(m types.Mode) { r.mode = m }
func (r *Replica) ZZHead() string         { return r.info.Head }

// ZZServer: a replica server over the directory model in one of the six states
// (initial, closed, open, dirty, rebuilding, error - plus closed with the rebuilding
// marker or the dirty flag left in volume.meta), with `snaps` snapshots.
func ZZServer(state string, snaps int) (*Server, *zzfs.FS) {
	fs := zzInstallFS()
	ActionChannel = make(chan string, 5)
	s := &Server{Dir: zzDir, defaultSectorSize: 4096, MonitorChannel: make(chan struct{}), preload: false}
	if state == "initial" {
		return s, fs
	}
	r := zzPreState(fs, snaps)
	switch state {
	case "closed":
		r.Close()
	case "closed-rebuilding":
		// closed while a rebuild was in progress (AutoConfigureReplica closes a replica that
		// is still rebuilding before it registers again): volume.meta keeps the marker
		r.SetRebuilding(true)
		r.Close()
	case "closed-dirty":
		// the process died with the volume dirty: nothing is attached after the restart
		r.info.Dirty = true
		r.encodeToFile(&r.info, volumeMetaData)
		fs.Revive()
	case "error":
		r.Close()
		fs.Entries[volumeMetaData].Valid = false
		fs.Entries[volumeMetaData].Meta = nil
		fs.Entries[volumeMetaData].Size = 3
	case "open":
		r.info.Dirty = false
		s.r = r
	case "dirty":
		r.info.Dirty = true
		s.r = r
	case "rebuilding":
		r.SetRebuilding(true)
		s.r = r
	}
	return s, fs
}

func (s *Server) ZZLockDepth() int { return zzLockDepth(&s.RWMutex) }
func (s *Server) ZZOpen() bool     { return s.r != nil }
func (s *Server) ZZChain() []string {
	if s.r == nil {
		return nil
	}
	ch, _ := s.r.Chain()
	return ch
}

// ZZEntries: number of directory entries other than the revision counter file
// (any status query initialises that file in an empty directory).
func ZZEntries(fs *zzfs.FS) int {
	n := 0
	for k := range fs.Entries {
		if k != revisionCounterFile {
			n++
		}
	}
	return n
}


// ZZCleanerServer: an open RW server whose replica holds len(user) snapshots; snapshot i
// holds one block written just before it was taken (block i%2, value i+1), so every
// snapshot has data of its own and the newest two own the live image.
func ZZCleanerServer(user, removed []bool) (*Server, *Replica) {
	r, err := zzOpenReplica()
	if err != nil {
		return nil, nil
	}
	r.mode = types.RW
	names := []string{"0", "1", "2", "3", "4", "5", "6", "7", "8", "9", "10", "11", "12", "13", "14", "15"}
	for i := range user {
		buf := make([]byte, 4096)
		buf[0] = byte(i + 1)
		if _, err := r.WriteAt(buf, int64(i%2)*4096); err != nil {
			return nil, nil
		}
		if r.Snapshot(names[i], false, "t") != nil {
			return nil, nil
		}
	}
	for i := range user {
		d := r.diskData[GenerateSnapshotDiskName(names[i])]
		d.UserCreated = user[i]
		d.Removed = removed[i]
	}
	ActionChannel = make(chan string, 5)
	s := &Server{Dir: zzDir, defaultSectorSize: 4096, MonitorChannel: make(chan struct{}), r: r}
	return s, r
}

// ZZReadAll reads the whole live volume.
func (r *Replica) ZZReadAll() []byte {
	buf := make([]byte, zzSize)
	r.ReadAt(buf, 0)
	return buf
}

// ZZFold: what the sync agent's fold does: every block allocated in source is copied
// over the same block of target.
func (r *Replica) ZZFold(source, target string) {
	var sb, tb *zzBlob
	for i, d := range r.activeDiskData {
		if d == nil {
			continue
		}
		if d.Name == source {
			sb, _ = r.volume.files[i].(*zzBlob)
		}
		if d.Name == target {
			tb, _ = r.volume.files[i].(*zzBlob)
		}
	}
	if sb == nil || tb == nil {
		return
	}
	for b := 0; b < sb.blocks && b < tb.blocks; b++ {
		if sb.present[b] {
			copy(tb.data[b*4096:(b+1)*4096], sb.data[b*4096:(b+1)*4096])
			tb.present[b] = true
		}
	}
}

// ZZChainAcyclic: walking the parent links from the head ends within as many steps
// as there are disks (Replica.Chain / DisplayChain walk these links without a bound,
// holding the replica lock).
func (s *Server) ZZChainAcyclic() bool {
	if s.r == nil {
		return true
	}
	cur := s.r.info.Head
	for i := 0; i <= len(s.r.diskData)+1; i++ {
		d, ok := s.r.diskData[cur]
		if !ok || d.Parent == "" {
			return true
		}
		cur = d.Parent
	}
	return false
}

// ZZWriteLockUnlock takes and releases the server's write lock.
func (s *Server) ZZWriteLockUnlock() { s.Lock(); s.Unlock() }

// ZZCloneTarget: an open server over a freshly created replica (head only) in WO mode -
// what a clone is while the copy runs - with the copied snapshot "new" present in the
// directory or not.
func ZZCloneTarget(copied bool) (*Server, *zzfs.FS) {
	s, fs := ZZServer("open", 0)
	s.r.mode = types.WO
	if copied {
		for _, n := range []string{"volume-snap-new.img", "volume-snap-new.img.meta"} {
			cf, cerr := zzfs.OpenFile(zzDir+"/"+n, 0x42, 0600)
			if cerr != nil {
				return nil, nil
			}
			zzfs.FileClose(cf)
		}
	}
	return s, fs
}

// ZZCloneInfoPersisted: a reopen of the directory finds the head rewired to snapshot
// `snap` and the revision counter at rev (what UpdateCloneInfo promises on success).
func ZZCloneInfoPersisted(fs *zzfs.FS, snap string, rev int64) bool {
	fs.Revive()
	info, err := ReadInfo(zzDir)
	want := GenerateSnapshotDiskName(snap)
	if err != nil || info.Parent != want {
		return false
	}
	var d disk
	if (&Replica{dir: zzDir}).unmarshalFile(info.Head+metadataSuffix, &d) != nil || d.Parent != want {
		return false
	}
	tmp := Replica{dir: zzDir}
	return tmp.initRevisionCounter() == nil && tmp.revisionCache == rev
}

// ZZSetCounter puts the open replica's revision counter at v (cache and file).
func (s *Server) ZZSetCounter(v int64) bool {
	m := s.r.mode
	s.r.mode = types.RW
	err := s.r.SetRevisionCounter(v)
	s.r.mode = m
	return err == nil
}

// ZZCounters: the revision counter the open replica reports and the one a reopen of the
// directory would find.
func (s *Server) ZZCounters() (int64, int64) {
	tmp := Replica{dir: zzDir}
	if tmp.initRevisionCounter() != nil {
		return s.r.GetRevisionCounter(), -2
	}
	return s.r.GetRevisionCounter(), tmp.revisionCache
}

func (s *Server) ZZModeIs(m types.Mode) bool { return s.r != nil && s.r.mode == m }

// ZZFacts: what the open replica reports about itself, plus what a reopen of the
// directory would read from volume.meta (disk* fields).
type ZZFacts struct {
	Chain                    []string
	Checkpoint, DiskCheckpoint string
	Rebuilding, DiskRebuilding bool
	Mode                     types.Mode
	Size, DiskSize           int64
	DiskHead, DiskParent     string
}

func (s *Server) ZZFacts(fs *zzfs.FS) ZZFacts {
	var f ZZFacts
	if s.r == nil {
		return f
	}
	f.Chain, _ = s.r.Chain()
	f.Checkpoint, f.Rebuilding, f.Mode, f.Size = s.r.info.Checkpoint, s.r.info.Rebuilding, s.r.mode, s.r.info.Size
	fs.Revive()
	if info, err := ReadInfo(zzDir); err == nil {
		f.DiskCheckpoint, f.DiskRebuilding, f.DiskSize, f.DiskHead, f.DiskParent = info.Checkpoint, info.Rebuilding, info.Size, info.Head, info.Parent
	}
	return f
}
