package replica

import (
	"github.com/openebs/jiva/types"
	"github.com/openebs/jiva/zzfs"
)

// C12 — the chain stays a well-formed path and survives reopen unchanged.

var zzNamePool = []string{"s1", "s2", "volume-snap-s1.img", "volume-head-000.img", "volume-head-001.img", "nosuch", "", "volume.meta"}

// zzPickName concretises a name from the pool (valid, protected, unknown, empty).
func zzPickName(tag string) string {
	return zzNamePool[zzConcretize(zzChoice(tag, len(zzNamePool)))]
}

// zzDoOp performs one management operation chosen symbolically; returns the
// (possibly replaced) replica, the error, and whether the operation is one that
// replaces the chain on success.
func zzDoOp(r *Replica, tag string) (*Replica, error, string) {
	op := zzConcretize(zzChoice(tag+".op", 8))
	switch op {
	case 0:
		return r, r.Snapshot(zzPickName(tag+".name"), zzNondetBool(tag+".user"), "now"), "Snapshot"
	case 1:
		_, err := r.PrepareRemoveDisk(zzPickName(tag + ".name"))
		return r, err, "PrepareRemoveDisk"
	case 2:
		return r, r.RemoveDiffDisk(zzPickName(tag + ".name")), "RemoveDiffDisk"
	case 3:
		return r, r.ReplaceDisk(zzPickName(tag+".target"), zzPickName(tag+".source")), "ReplaceDisk"
	case 4:
		rn, err := r.Revert(zzPickName(tag+".name"), "now")
		if err != nil || rn == nil {
			return r, err, "Revert"
		}
		rn.mode = r.mode
		return rn, nil, "Revert"
	case 5:
		return r, r.Resize(int64(zzSize * (1 + zzConcretize(zzChoice(tag+".size", 3))) / 2)), "Resize"
	case 6:
		return r, r.SetCheckpoint(zzPickName(tag + ".name")), "SetCheckpoint"
	default:
		return r, r.SetRebuilding(zzNondetBool(tag + ".rebuilding")), "SetRebuilding"
	}
}

func ZZ_C12_History() {
	k := zzParam("K", 2)
	fs := zzInstallFS()
	r, err := zzOpenReplica()
	zzAssert(err == nil, "C12.create-failed")
	if err != nil {
		return
	}
	if zzNondetBool("mode.rw") {
		r.mode = types.RW
	} else {
		r.mode = types.WO
	}
	zzWellFormed("C12.initial", r)
	for step := 0; step < k; step++ {
		before := zzMemDigest(r)
		headInode := zzInodeOf(r.info.Head)
		r2, err, opname := zzDoOp(r, "op")
		r = r2
		after := zzMemDigest(r)
		zzWellFormed("C12.after-"+opname, r)
		if opname == "Snapshot" && err == nil {
			// the snapshot just taken IS the data that was the head: same file, new name
			zzAssert(zzInodeOf(r.info.Parent) == headInode, "C12.after-Snapshot.snapshot-is-not-the-former-head's-data")
		}
		if err != nil {
			zzReach("C12.refused")
			zzAssert(zzSameAttrs(before, after), "C12.refused-"+opname+"-changed-the-chain")
		} else {
			zzReach("C12.accepted")
		}
		// close and reopen: the same chain, attributes and data files
		mode := r.mode
		fs.Revive()
		rr, oerr := zzOpenReplica()
		zzAssert(oerr == nil && rr != nil, "C12.reopen-failed-after-"+opname)
		if oerr != nil || rr == nil {
			return
		}
		got := zzMemDigest(rr)
		zzAssert(zzSameAttrs(got, after), "C12.reopen-sees-different-chain-after-"+opname)
		zzWellFormed("C12.reopened", rr)
		rr.mode = mode
		r = rr
	}
	zzReach("C12.history.done")
}


// Histories of removals on a longer chain (the cleaner removes several snapshots in
// one process): K operations from {RemoveDiffDisk, PrepareRemoveDisk, Snapshot, Revert}
// with names drawn from the chain itself.
func ZZ_C12_RemovalHistory() {
	k := zzParam("K", 2)
	n := zzParam("SNAPS", 4)
	fs := zzInstallFS()
	r, err := zzOpenReplica()
	zzAssume(err == nil)
	r.mode = types.RW
	// (s1 and s1.img: one disk name is a prefix of the other's, as with "daily" and a
	// snapshot somebody named "daily.img")
	names := []string{"s0", "s1", "s1.img", "s3", "s4", "s5"}
	for i := 0; i < n; i++ {
		// writes happened between the snapshots: each records a different revision count
		zzAssume(r.SetRevisionCounter(int64(10*(i+1))) == nil)
		zzAssume(r.Snapshot(names[i], zzNondetBool("user"), "t") == nil)
	}
	zzWellFormed("C12.removal.initial", r)
	for step := 0; step < k; step++ {
		ch, _ := r.Chain()
		name := ch[zzConcretize(zzChoice("victim", len(ch)))]
		before := zzMemDigest(r)
		headInode := zzInodeOf(r.info.Head)
		op := zzConcretize(zzChoice("op", 4))
		var oerr error
		opname := ""
		switch op {
		case 0:
			opname = "RemoveDiffDisk"
			oerr = r.RemoveDiffDisk(name)
		case 1:
			opname = "PrepareRemoveDisk"
			_, oerr = r.PrepareRemoveDisk(name)
		case 2:
			opname = "Snapshot"
			// a new name, or the name of a snapshot that existed before (removed or dropped
			// by a revert): users do re-create "daily" after deleting it
			sn := "n" + names[step]
			if reuse := zzConcretize(zzChoice("reuse", 3)); reuse > 0 {
				sn = names[n-reuse]
			}
			oerr = r.Snapshot(sn, zzNondetBool("user"), "t")
		default:
			opname = "Revert"
			rn, e := r.Revert(name, "t")
			oerr = e
			if e == nil && rn != nil {
				rn.mode = types.RW
				r = rn
			}
		}
		after := zzMemDigest(r)
		zzWellFormed("C12.removal.after-"+opname, r)
		if opname == "Snapshot" && oerr == nil {
			zzAssert(zzInodeOf(r.info.Parent) == headInode, "C12.removal.after-Snapshot.snapshot-is-not-the-former-head's-data")
		}
		if oerr != nil {
			zzReach("C12.removal.refused")
			zzAssert(zzSameAttrs(before, after), "C12.removal.refused-"+opname+"-changed-the-chain")
		} else {
			zzReach("C12.removal.accepted")
		}
		// the directory agrees with the live replica (reopen in a fresh process, the live
		// replica keeps running: the next operation uses the same in-memory state)
		saved := *fs
		fs.Revive()
		rr, rerr := zzOpenReplica()
		zzAssert(rerr == nil && rr != nil, "C12.removal.reopen-failed-after-"+opname)
		if rr != nil {
			zzAssert(zzSameAttrs(zzMemDigest(rr), after), "C12.removal.reopen-sees-different-chain-after-"+opname)
		}
		_ = saved
	}
	zzReach("C12.removal.done")
}


// C06 (protection index across reopen): whatever mix of user-created and automatic
// snapshots the chain holds, the reopened replica's block map protects every
// user-created snapshot (SnapIndx is at or above the newest one, the per-file flags
// are the snapshots' own), also after a revert to any of them.
func ZZ_C06_ReopenProtection() {
	n := zzParam("SNAPS", 4)
	fs := zzInstallFS()
	r, err := zzOpenReplica()
	zzAssume(err == nil)
	r.mode = types.RW
	names := []string{"s0", "s1", "s2", "s3", "s4", "s5"}
	for i := 0; i < n; i++ {
		zzAssume(r.Snapshot(names[i], zzNondetBool("user"), "t") == nil)
	}
	zzWellFormed("C06.protection.live", r)
	if zzNondetBool("revert") {
		ch, _ := r.Chain()
		rn, e := r.Revert(ch[1+zzConcretize(zzChoice("target", len(ch)-1))], "t")
		zzAssume(e == nil && rn != nil)
		r = rn
		zzWellFormed("C06.protection.reverted", r)
		zzReach("C06.protection.reverted")
	}
	fs.Revive()
	rr, oerr := zzOpenReplica()
	zzAssert(oerr == nil && rr != nil, "C06.protection.reopen-failed")
	if rr != nil {
		zzWellFormed("C06.protection.reopened", rr)
	}
	zzReach("C06.protection.done")
}

// Histories through the Server layer (what the REST API and the RPC server call): the
// Server replaces its Replica instance on revert, reload and close/open.  After every
// step the directory - opened by a fresh process, without any orderly close of the
// live one - shows the chain, attributes and data files of the live replica, and the
// live volume still reads what was written.
func ZZ_C12_ServerHistory() {
	k := zzParam("KS", 2)
	fs := zzInstallFS()
	ActionChannel = make(chan string, 5)
	s := &Server{Dir: zzDir, defaultSectorSize: 4096, MonitorChannel: make(chan struct{})}
	zzAssume(s.Create(zzSize) == nil)
	zzAssume(s.Open() == nil)
	zzAssume(s.SetReplicaMode("RW") == nil)
	model := make([]byte, zzBlocks)
	write := func(blk int, tag byte) {
		buf := make([]byte, 4096)
		buf[0], buf[4095] = tag, tag
		_, werr := s.WriteAt(buf, int64(blk)*4096)
		zzAssert(werr == nil, "C12.server.write-failed")
		model[blk] = tag
	}
	write(0, 'A')
	zzAssume(s.Snapshot("s0", zzNondetBool("user0"), "t") == nil)
	write(1, 'B')
	zzAssume(s.Snapshot("s1", zzNondetBool("user1"), "t") == nil)
	write(0, 'C')
	snapModel := map[string][]byte{"volume-snap-s0.img": {'A', 0}, "volume-snap-s1.img": {'A', 'B'}}
	for step := 0; step < k; step++ {
		if s.r == nil {
			break
		}
		ch, _ := s.r.Chain()
		pool := append(append([]string{}, ch...), "volume-snap-nosuch.img", "")
		name := pool[zzConcretize(zzChoice("name", len(pool)))]
		var err error
		opname := ""
		switch zzConcretize(zzChoice("op", 9)) {
		case 0:
			opname = "Snapshot"
			err = s.Snapshot([]string{"n0", "n1"}[step%2], zzNondetBool("user"), "t")
		case 1:
			opname = "Revert"
			err = s.Revert(name, "t")
			if err == nil {
				if m, ok := snapModel[name]; ok {
					copy(model, m)
					for i := len(m); i < len(model); i++ {
						model[i] = 0
					}
				} else {
					model = nil // reverted to a snapshot taken in this loop: image not tracked
				}
			}
		case 2:
			opname = "RemoveDiffDisk"
			err = s.RemoveDiffDisk(name)
			if err == nil {
				model = nil // data moves only through the (external) coalesce step: not tracked
			}
		case 3:
			opname = "PrepareRemoveDisk"
			_, err = s.PrepareRemoveDisk(name)
		case 4:
			opname = "Resize"
			err = s.Resize("32K")
		case 5:
			opname = "SetCheckpoint"
			err = s.SetCheckpoint(name)
		case 6:
			opname = "SetRebuilding"
			err = s.SetRebuilding(zzNondetBool("rebuilding"))
		case 7:
			opname = "Reload"
			err = s.Reload()
		default:
			opname = "CloseOpen"
			err = s.Close()
			if err == nil {
				err = s.Open()
				if err == nil {
					s.SetReplicaMode("RW")
				}
			}
		}
		// only close / delete detach the replica; a refused or failed request leaves it where
		// it was (CloseOpen re-opens it, or stops the history when the open is refused)
		zzAssert(s.r != nil || opname == "CloseOpen", "C12.server.replica-dropped-by-"+opname)
		if s.r == nil {
			break
		}
		live := zzMemDigest(s.r)
		zzWellFormed("C12.server.after-"+opname, s.r)
		// a fresh process opens the directory as it is now (no orderly close happened)
		fs.Revive()
		rr, rerr := zzOpenReplica()
		zzAssert(rerr == nil && rr != nil, "C12.server.directory-does-not-reopen-after-"+opname)
		if rr != nil {
			zzAssert(zzSameAttrs(zzMemDigest(rr), live), "C12.server.directory-disagrees-with-live-replica-after-"+opname)
		}
		if model != nil {
			rb := make([]byte, 2*4096)
			_, rderr := s.ReadAt(rb, 0)
			zzAssert(rderr == nil, "C12.server.read-failed-after-"+opname)
			zzAssert(rb[0] == model[0] && rb[4096] == model[1], "C12.server.volume-reads-wrong-data-after-"+opname)
		}
		_ = err
	}
	zzReach("C12.server.done")
}

// The chain-length limit: whatever chain the replica agrees to build, it can open
// again.  With the limit set to L, snapshots are taken until one is refused; after every
// accepted one a fresh process must be able to open the directory and see the same chain.
func ZZ_C12_ChainLimit() {
	fs := zzInstallFS()
	limit := 3 + zzConcretize(zzChoice("limit", 3)) // 3..5 disks
	saved := types.MaxChainLength
	types.MaxChainLength = limit
	r, err := zzOpenReplica()
	zzAssume(err == nil)
	r.mode = types.RW
	names := []string{"c0", "c1", "c2", "c3", "c4", "c5", "c6", "c7"}
	refused := false
	for i := 0; i < limit+2 && !refused; i++ {
		before := zzMemDigest(r)
		serr := r.Snapshot(names[i], zzNondetBool("user"), "t")
		after := zzMemDigest(r)
		if serr != nil {
			refused = true
			zzReach("C12.limit.refused")
			zzAssert(zzSameAttrs(before, after), "C12.limit.refused-snapshot-changed-the-chain")
		}
		zzWellFormed("C12.limit.live", r)
		fs.Revive()
		rr, oerr := zzOpenReplica()
		zzAssert(oerr == nil && rr != nil, "C12.limit.chain-the-replica-built-cannot-be-reopened")
		if rr != nil {
			zzAssert(zzSameAttrs(zzMemDigest(rr), after), "C12.limit.reopen-sees-different-chain")
		}
	}
	zzAssert(refused, "C12.limit.no-snapshot-was-ever-refused")
	types.MaxChainLength = saved
	zzReach("C12.limit.done")
}

// zzInodeOf: identity of the data file behind a directory entry (0 if absent)
func zzInodeOf(name string) int {
	if ino := zzfs.Cur.Entries[name]; ino != nil {
		return ino.ID
	}
	return 0
}

// C12 (snapshots a revert left behind): after a revert the snapshots above the target stay
// in the directory but are no longer part of the chain; later operations may remove what
// they hung below.  Whatever is asked for then - a revert to such a left-behind snapshot,
// to a member of the chain, to an unknown name - either succeeds with a well-formed chain
// or is refused with nothing changed, and the directory reopens to the same chain.
func ZZ_C12_LeftBehindSnapshot() {
	fs := zzInstallFS()
	r, err := zzOpenReplica()
	zzAssume(err == nil)
	r.mode = types.RW
	for _, n := range []string{"a", "b", "c"} {
		zzAssume(r.Snapshot(n, zzNondetBool("user."+n), "t") == nil)
	}
	rn, rerr := r.Revert("volume-snap-b.img", "t")
	zzAssume(rerr == nil && rn != nil)
	r = rn
	r.mode = types.RW
	zzAssume(r.Snapshot("d", true, "t") == nil)
	if zzNondetBool("parent-of-the-left-behind-snapshot-removed") {
		zzAssume(r.RemoveDiffDisk("volume-snap-b.img") == nil)
	}
	zzWellFormed("C12.left-behind.initial", r)
	before := zzMemDigest(r)
	target := zzConcStr(zzPick("target", "volume-snap-c.img", "volume-snap-b.img", "volume-snap-a.img", "volume-snap-d.img", "c", "volume-snap-nosuch.img"))
	op := zzConcretize(zzChoice("op", 3))
	var oerr error
	opname := ""
	switch op {
	case 0:
		opname = "Revert"
		r2, e := r.Revert(target, "t")
		oerr = e
		if e == nil && r2 != nil {
			r2.mode = types.RW
			r = r2
		}
	case 1:
		opname = "RemoveDiffDisk"
		oerr = r.RemoveDiffDisk(target)
	default:
		opname = "PrepareRemoveDisk"
		_, oerr = r.PrepareRemoveDisk(target)
	}
	after := zzMemDigest(r)
	zzWellFormed("C12.left-behind.after-"+opname, r)
	if oerr != nil {
		zzReach("C12.left-behind.refused")
		zzAssert(zzSameAttrs(before, after), "C12.left-behind.refused-"+opname+"-changed-the-chain")
	} else {
		zzReach("C12.left-behind.accepted")
	}
	fs.Revive()
	rr, rerr2 := zzOpenReplica()
	zzAssert(rerr2 == nil && rr != nil, "C12.left-behind.reopen-failed-after-"+opname)
	if rr != nil {
		zzAssert(zzSameAttrs(zzMemDigest(rr), after), "C12.left-behind.reopen-sees-different-chain-after-"+opname)
		zzWellFormed("C12.left-behind.reopened", rr)
	}
	zzReach("C12.left-behind.done")
}
