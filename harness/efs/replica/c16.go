package replica

import (
	"github.com/openebs/jiva/types"
	"github.com/openebs/jiva/zzfs"
)

// C16 (replica side): growing keeps all data, the added range reads zero and accepts
// writes, the new size survives reopen; shrinking is refused and changes nothing.
func ZZ_C16_ReplicaResize() {
	fs := zzInstallFS()
	r, err := zzOpenReplica()
	zzAssume(err == nil)
	r.mode = types.RW
	// data in both blocks of the base, then optionally a snapshot and an overwrite
	b0, b1 := zzNondetByte("b0"), zzNondetByte("b1")
	buf := make([]byte, 4096)
	buf[7] = b0
	r.WriteAt(buf, 0)
	buf[7] = b1
	r.WriteAt(buf, 4096)
	snaps := zzConcretize(zzChoice("snaps", 2))
	want0 := b0
	if snaps == 1 {
		zzAssume(r.Snapshot("a", true, "t") == nil)
		h := zzNondetByte("h0")
		buf[7] = h
		r.WriteAt(buf, 0)
		want0 = h
	}
	before := zzMemDigest(r)
	oldLoc := append([]uint16{}, r.volume.location...)
	sizes := []int64{4096, zzSize, zzSize + 4096, 2 * zzSize}
	newSize := sizes[zzConcretize(zzChoice("newsize", len(sizes)))]
	var rerr error
	if zzNondetBool("as-string") {
		strs := map[int64]string{4096: "4096", zzSize: "8192", zzSize + 4096: "12K", 2 * zzSize: "16K"}
		rerr = r.Resize(strs[newSize])
	} else {
		rerr = r.Resize(newSize)
	}
	if newSize < zzSize {
		zzReach("C16.shrink")
		zzAssert(rerr != nil, "C16.shrink-accepted-by-replica")
		zzAssert(zzSameAttrs(before, zzMemDigest(r)), "C16.refused-shrink-changed-the-replica")
		zzAssert(len(r.volume.location) == len(oldLoc), "C16.refused-shrink-changed-the-block-map")
		for _, n := range before.chain {
			zzAssert(fs.Entries[n].Size == zzSize, "C16.refused-shrink-truncated-a-file")
		}
		return
	}
	zzAssert(rerr == nil, "C16.grow-refused")
	if rerr != nil {
		return
	}
	zzReach("C16.grow")
	zzAssert(r.info.Size == newSize, "C16.size-not-updated")
	zzAssert(int64(len(r.volume.location)) == newSize/4096, "C16.block-map-length")
	for i := range oldLoc {
		zzAssert(r.volume.location[i] == oldLoc[i], "C16.old-block-map-entry-changed")
	}
	for i := len(oldLoc); i < len(r.volume.location); i++ {
		zzAssert(r.volume.location[i] == 0, "C16.new-block-map-entry-not-empty")
	}
	for _, n := range before.chain {
		zzAssert(fs.Entries[n].Size == newSize, "C16.chain-file-not-extended")
	}
	// old data unchanged, new range zero, and writable
	rb := make([]byte, 4096)
	r.ReadAt(rb, 0)
	zzAssert(rb[7] == want0, "C16.old-data-changed-by-resize")
	r.ReadAt(rb, 4096)
	zzAssert(rb[7] == b1, "C16.old-data-changed-by-resize")
	if newSize > zzSize {
		r.ReadAt(rb, zzSize)
		zzAssert(rb[7] == 0 && rb[0] == 0, "C16.added-range-does-not-read-zero")
		nb := zzNondetByte("new")
		buf[7] = nb
		_, werr := r.WriteAt(buf, zzSize)
		zzAssert(werr == nil, "C16.write-to-added-range-refused")
		r.ReadAt(rb, zzSize)
		zzAssert(rb[7] == nb, "C16.write-to-added-range-lost")
	}
	// the new size survives reopen
	fs.Revive()
	r2, oerr := New(false, newSize, 4096, zzDir, nil, "")
	zzAssert(oerr == nil && r2 != nil, "C16.reopen-failed")
	if r2 != nil {
		zzAssert(r2.info.Size == newSize, "C16.size-lost-on-reopen")
		zzAssert(int64(len(r2.volume.location)) == newSize/4096, "C16.block-map-length-after-reopen")
		r2.ReadAt(rb, 4096)
		zzAssert(rb[7] == b1, "C16.data-lost-on-reopen")
	}
	_ = zzfs.Cur
}

// C16 / C17 (a request queued behind an operation that replaces the open replica): while
// Reload or Revert holds the server lock - they build a new Replica object and swap it in
// - a second request arrives and waits for the lock.  When it runs it must act on the
// replica that is live then: a grow that reports success is visible on the live replica
// (size, block map, the added range accepts a write) and survives reopen; a snapshot,
// a checkpoint or a write that reports success is found on the live replica.
func ZZ_C16_QueuedBehindSwap() {
	fs := zzInstallFS()
	ActionChannel = make(chan string, 5)
	r := zzPreState(fs, 1)
	s := &Server{Dir: zzDir, defaultSectorSize: 4096, MonitorChannel: make(chan struct{}), r: r}
	first := zzConcretize(zzChoice("first", 2))  // Reload, Revert
	second := zzConcretize(zzChoice("second", 4)) // Resize, Snapshot, SetCheckpoint, WriteAt
	gate := make(chan struct{})
	done := make(chan error, 1)
	buf := make([]byte, 4096)
	buf[9] = 0x5a
	go func() {
		<-gate
		switch second {
		case 0:
			done <- s.Resize("16K")
		case 1:
			done <- s.Snapshot("q", true, "t")
		case 2:
			done <- s.SetCheckpoint("volume-snap-a.img")
		default:
			_, err := s.WriteAt(buf, 4096)
			done <- err
		}
	}()
	opened := false
	zzfs.OnStep = func() {
		if !opened && zzLockDepth(&s.RWMutex) > 0 {
			opened = true
			close(gate)
			zzYield()
		}
	}
	var ferr error
	if first == 0 {
		ferr = s.Reload()
	} else {
		ferr = s.Revert("volume-snap-a.img", "t")
	}
	zzfs.OnStep = nil
	if !opened {
		close(gate)
	}
	zzSettle()
	zzAssert(ferr == nil, "C16.queued.first-operation-failed")
	zzAssert(len(done) == 1, "C16.queued.second-request-never-served")
	if len(done) != 1 || s.r == nil {
		return
	}
	serr := <-done
	live := s.r
	live.mode = types.RW
	if serr != nil {
		zzReach("C16.queued.second-refused")
		return
	}
	zzReach("C16.queued.second-ok")
	switch second {
	case 0:
		zzAssert(live.info.Size == 2*zzSize, "C16.queued.grow-reported-done-but-live-replica-keeps-the-old-size")
		zzAssert(int64(len(live.volume.location)) == 2*zzSize/4096, "C16.queued.grow-reported-done-but-live-block-map-not-grown")
		_, werr := live.WriteAt(buf, zzSize)
		zzAssert(werr == nil, "C16.queued.write-to-added-range-refused")
		fs.Revive()
		info, ierr := ReadInfo(zzDir)
		zzAssert(ierr == nil && info.Size == 2*zzSize && info.Head == live.info.Head, "C16.queued.volume-metadata-disagrees-with-live-replica-after-grow")
	case 1:
		_, ok := live.diskData["volume-snap-q.img"]
		zzAssert(ok && live.info.Parent == "volume-snap-q.img", "C16.queued.snapshot-reported-done-but-not-in-the-live-chain")
	case 2:
		zzAssert(live.info.Checkpoint == "volume-snap-a.img", "C16.queued.checkpoint-reported-set-but-not-on-the-live-replica")
	default:
		rb := make([]byte, 4096)
		_, rerr := live.ReadAt(rb, 4096)
		zzAssert(rerr == nil && rb[9] == 0x5a, "C16.queued.acknowledged-write-not-readable-on-the-live-replica")
	}
	zzAssert(zzLockDepth(&s.RWMutex) == 0, "C16.queued.lock-left-held")
}

// C16 (the new size survives a restart of the replica process): the replica is started
// with `--size <size at creation>` every time, and start-up calls Server.Create(size) and
// then Open.  After an online grow the flag is stale: the restarted replica must still
// come up at the grown size - volume.meta is what counts - with the block map covering
// it and the data written into the added range readable.
func ZZ_C16_RestartAfterGrow() {
	fs := zzInstallFS()
	ActionChannel = make(chan string, 5)
	s := &Server{Dir: zzDir, defaultSectorSize: 4096, MonitorChannel: make(chan struct{})}
	zzExtentsSupported = true
	zzAssume(s.Create(zzSize) == nil)
	zzAssume(s.Open() == nil)
	s.r.mode = types.RW
	buf := make([]byte, 4096)
	buf[5] = 0x31
	_, werr := s.WriteAt(buf, 4096)
	zzAssume(werr == nil)
	size := int64(zzSize)
	if zzNondetBool("grown") {
		zzAssume(s.Resize("16K") == nil)
		size = 2 * zzSize
		buf[5] = 0x32
		_, werr = s.WriteAt(buf, zzSize)
		zzAssume(werr == nil)
		if zzNondetBool("snapshot-after-grow") {
			zzAssume(s.Snapshot("g", true, "t") == nil)
		}
	}
	if zzNondetBool("clean-shutdown") {
		zzAssume(s.Close() == nil)
	}
	// restart: a new process, the same directory, the stale flag
	fs.Revive()
	s2 := &Server{Dir: zzDir, defaultSectorSize: 4096, MonitorChannel: make(chan struct{})}
	flag := []int64{zzSize, 0, 2 * zzSize, 4096}[zzConcretize(zzChoice("size-flag", 4))]
	zzAssert(s2.Create(flag) == nil, "C16.restart.create-on-existing-directory-failed")
	zzAssert(s2.Open() == nil, "C16.restart.open-failed")
	if s2.r == nil {
		return
	}
	s2.r.mode = types.RW
	zzAssert(s2.r.info.Size == size, "C16.restart.replica-comes-up-at-another-size-than-it-had")
	zzAssert(int64(len(s2.r.volume.location)) == size/4096, "C16.restart.block-map-does-not-cover-the-volume")
	info, ierr := ReadInfo(zzDir)
	zzAssert(ierr == nil && info.Size == size, "C16.restart.volume-metadata-size-changed-by-restart")
	rb := make([]byte, 4096)
	_, rerr := s2.ReadAt(rb, 4096)
	zzAssert(rerr == nil && rb[5] == 0x31, "C16.restart.old-data-lost")
	if size > zzSize {
		_, rerr = s2.ReadAt(rb, zzSize)
		zzAssert(rerr == nil && rb[5] == 0x32, "C16.restart.data-in-the-added-range-lost")
		zzReach("C16.restart.grown")
	}
	zzExtentsSupported = false
	zzReach("C16.restart.done")
}

// C17 / C14 (the open replica is only ever changed under the server lock): while another
// request holds the server's write lock - a reload or a revert about to swap in a new
// Replica object, a close, a delete - no other management or data-path entry point
// touches the directory or the replica; once the lock is released it runs, on the replica
// that is live then.
func ZZ_C17_ServerMutualExclusion() {
	fs := zzInstallFS()
	ActionChannel = make(chan string, 5)
	r := zzPreState(fs, 2)
	s := &Server{Dir: zzDir, defaultSectorSize: 4096, MonitorChannel: make(chan struct{}), r: r}
	ops := []string{"Snapshot", "Revert", "Reload", "Resize", "SetRebuilding", "SetCheckpoint", "SetReplicaMode", "SetRevisionCounter", "Close", "Delete",
		"RemoveDiffDisk", "PrepareRemoveDisk", "UpdateCloneInfo", "WriteAt", "Unmap", "Open", "Open", "ReplaceDisk"}
	op := zzConcretize(zzChoice("op", len(ops)))
	before := zzMemDigest(r)
	cell := zzCell()
	s.Lock() // another request is being served
	fs.MutSteps = 0
	done := make(chan bool, 1)
	go func() {
		buf := make([]byte, 4096)
		switch op {
		case 0:
			s.Snapshot("x", true, "t")
		case 1:
			s.Revert("volume-snap-a.img", "t")
		case 2:
			s.Reload()
		case 3:
			s.Resize("16K")
		case 4:
			s.SetRebuilding(true)
		case 5:
			s.SetCheckpoint("volume-snap-a.img")
		case 6:
			s.SetReplicaMode("WO")
		case 7:
			s.SetRevisionCounter(cell + 9)
		case 8:
			s.Close()
		case 9:
			s.Delete()
		case 10:
			s.RemoveDiffDisk("volume-snap-a.img")
		case 11:
			s.PrepareRemoveDisk("volume-snap-a.img")
		case 12:
			s.UpdateCloneInfo("a", "5")
		case 13:
			s.WriteAt(buf, 0)
		case 14:
			s.Unmap(0, 4096)
		case 15, 16:
			s.Open()
		default:
			s.ReplaceDisk("volume-snap-a.img", "volume-snap-b.img")
		}
		done <- true
	}()
	zzSettle()
	zzAssert(s.r == r, "C17.server-mutex."+ops[op]+".replaced-the-open-replica-while-another-request-holds-the-lock")
	zzAssert(fs.MutSteps == 0, "C17.server-mutex."+ops[op]+".touched-the-directory-while-another-request-holds-the-lock")
	zzAssert(zzSameAttrs(before, zzMemDigest(r)) && zzCell() == cell && r.mode == types.RW, "C17.server-mutex."+ops[op]+".changed-the-replica-while-another-request-holds-the-lock")
	s.Unlock()
	zzSettle()
	zzAssert(len(done) == 1, "C17.server-mutex."+ops[op]+".never-completed-after-the-lock-was-released")
	zzAssert(zzLockDepth(&s.RWMutex) == 0, "C17.server-mutex.lock-left-held")
	zzReach("C17.server-mutex.done")
}
