package replica

import (
	"github.com/openebs/jiva/types"
	"github.com/openebs/jiva/zzfs"
)

// C19 (ii): Replica.UpdateCloneInfo: on success the head's parent and info.Parent
// name the snapshot, the revision counter equals the recorded one, and a reopen
// sees it; when one call fails an error is returned.
func ZZ_C19_UpdateCloneInfo() {
	fs := zzInstallFS()
	r, err := zzOpenReplica()
	zzAssume(err == nil)
	r.mode = types.WO
	// the copy has put the source snapshot's files into the directory (or has not)
	copied := zzNondetBool("snapshot-copied")
	if copied {
		for _, n := range []string{"volume-snap-s1.img", "volume-snap-s1.img.meta"} {
			cf, cerr := zzfs.OpenFile(zzDir+"/"+n, 0x42, 0600)
			zzAssume(cerr == nil)
			zzfs.FileClose(cf)
		}
	}
	rev := zzNondetInt64("rev")
	zzAssume(rev >= 0)
	failAt := zzConcretize(zzChoice("failAt", 21)) // 20 = no failure
	fs.Steps = 0
	if failAt < 20 {
		fs.FailAt = failAt
	}
	revText := zzDecStr(rev)
	if zzNondetBool("garbage-rev") {
		revText = "12x"
	}
	uerr := r.UpdateCloneInfo("s1", revText)
	if !copied {
		zzReach("C19.updatecloneinfo.not-copied")
		zzAssert(uerr != nil, "C19.UpdateCloneInfo-accepted-a-snapshot-that-was-not-copied")
		fs.Revive()
		info, ierr := ReadInfo(zzDir)
		zzAssert(ierr == nil && info.Parent == "", "C19.refused-UpdateCloneInfo-rewired-the-head")
		return
	}
	if fs.Failed || revText == "12x" {
		zzReach("C19.updatecloneinfo.failed")
		zzAssert(uerr != nil, "C19.UpdateCloneInfo-swallowed-a-failure")
		return
	}
	if failAt < 20 {
		zzAssume(false) // failing index beyond the operation
	}
	zzReach("C19.updatecloneinfo.ok")
	zzAssert(uerr == nil, "C19.UpdateCloneInfo-failed-without-fault")
	want := "volume-snap-s1.img"
	zzAssert(r.info.Parent == want, "C19.info.Parent-not-the-snapshot")
	zzAssert(r.diskData[r.info.Head].Parent == want, "C19.head-parent-not-the-snapshot")
	zzAssert(zzCell() == rev && r.revisionCache == rev, "C19.revision-counter-not-the-recorded-one")
	// a reopen sees parent and counter (the snapshot files arrive through the copy)
	fs.Revive()
	info, ierr := ReadInfo(zzDir)
	zzAssert(ierr == nil && info.Parent == want, "C19.parent-not-persisted")
	var d disk
	derr := (&Replica{dir: zzDir}).unmarshalFile(r.info.Head+metadataSuffix, &d)
	zzAssert(derr == nil && d.Parent == want && d.RevisionCounter == rev, "C19.head-metadata-not-persisted")
	tmp := Replica{dir: zzDir}
	zzAssert(tmp.initRevisionCounter() == nil && tmp.revisionCache == rev, "C19.counter-not-persisted")
}

// C19 (iv): the clone status a controller polls is the one persisted in volume.meta.
// SetCloneStatus(status): success => GetCloneStatus (which re-reads volume.meta) and
// a reopen both report exactly that status and nothing else in volume.meta changed;
// a failing file-system call => an error is returned and the status a poller sees is
// still the previous one (never "completed" out of a failed update).
func ZZ_C19_CloneStatus() {
	fs := zzInstallFS()
	r, err := zzOpenReplica()
	zzAssume(err == nil)
	pool := []string{"", "inProgress", "completed", "error", "NA"}
	prev := pool[zzConcretize(zzChoice("prev", len(pool)))]
	zzAssume(r.SetCloneStatus(prev) == nil)
	infoBefore, berr := ReadInfo(zzDir)
	zzAssume(berr == nil)
	next := pool[zzConcretize(zzChoice("next", len(pool)))]
	failAt := zzConcretize(zzChoice("failAt", 9)) // 8 = no failure
	fs.Steps = 0
	if failAt < 8 {
		fs.FailAt = failAt
	}
	serr := r.SetCloneStatus(next)
	failed := fs.Failed
	fs.FailAt = -1
	seen := r.GetCloneStatus()
	if failed {
		zzReach("C19.clonestatus.failed")
		zzAssert(serr != nil, "C19.SetCloneStatus-swallowed-a-failure")
		zzAssert(seen == prev || seen == next, "C19.clone-status-garbled-by-failed-update")
		return
	}
	if failAt < 8 {
		zzAssume(false)
	}
	zzReach("C19.clonestatus.ok")
	zzAssert(serr == nil, "C19.SetCloneStatus-failed-without-fault")
	zzAssert(seen == next, "C19.poller-does-not-see-the-status-just-set")
	fs.Revive()
	info, ierr := ReadInfo(zzDir)
	zzAssert(ierr == nil && info.CloneStatus == next, "C19.clone-status-not-persisted")
	zzAssert(info.Head == infoBefore.Head && info.Parent == infoBefore.Parent && info.Size == infoBefore.Size &&
		info.Checkpoint == infoBefore.Checkpoint && info.Rebuilding == infoBefore.Rebuilding,
		"C19.SetCloneStatus-changed-other-volume-metadata")
	r2, oerr := zzOpenReplica()
	zzAssert(oerr == nil, "C19.reopen-after-SetCloneStatus-failed")
	if r2 != nil {
		zzAssert(r2.GetCloneStatus() == next, "C19.clone-status-lost-on-reopen")
	}
}
