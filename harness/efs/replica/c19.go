package replica

import "github.com/openebs/jiva/types"

// C19 (ii): Replica.UpdateCloneInfo: on success the head's parent and info.Parent
// name the snapshot, the revision counter equals the recorded one, and a reopen
// sees it; when one call fails an error is returned.
func ZZ_C19_UpdateCloneInfo() {
	fs := zzInstallFS()
	r, err := zzOpenReplica()
	zzAssume(err == nil)
	r.mode = types.WO
	rev := zzNondetInt64("rev")
	zzAssume(rev >= 0)
	failAt := zzConcretize(zzChoice("failAt", 21)) // 20 = no failure
	fs.Steps = 0
	if failAt < 20 {
		fs.FailAt = failAt
	}
	revText := zzDecStr(rev)
	if zzNondetBool("garbage-rev") {
		revText = "12x"
	}
	uerr := r.UpdateCloneInfo("s1", revText)
	if fs.Failed || revText == "12x" {
		zzReach("C19.updatecloneinfo.failed")
		zzAssert(uerr != nil, "C19.UpdateCloneInfo-swallowed-a-failure")
		return
	}
	if failAt < 20 {
		zzAssume(false) // failing index beyond the operation
	}
	zzReach("C19.updatecloneinfo.ok")
	zzAssert(uerr == nil, "C19.UpdateCloneInfo-failed-without-fault")
	want := "volume-snap-s1.img"
	zzAssert(r.info.Parent == want, "C19.info.Parent-not-the-snapshot")
	zzAssert(r.diskData[r.info.Head].Parent == want, "C19.head-parent-not-the-snapshot")
	zzAssert(zzCell() == rev && r.revisionCache == rev, "C19.revision-counter-not-the-recorded-one")
	// a reopen sees parent and counter (the snapshot files arrive through the copy)
	fs.Revive()
	info, ierr := ReadInfo(zzDir)
	zzAssert(ierr == nil && info.Parent == want, "C19.parent-not-persisted")
	var d disk
	derr := (&Replica{dir: zzDir}).unmarshalFile(r.info.Head+metadataSuffix, &d)
	zzAssert(derr == nil && d.Parent == want && d.RevisionCounter == rev, "C19.head-metadata-not-persisted")
	tmp := Replica{dir: zzDir}
	zzAssert(tmp.initRevisionCounter() == nil && tmp.revisionCache == rev, "C19.counter-not-persisted")
}
