package replica

import (
	"io"
	"syscall"

	"github.com/openebs/jiva/types"
	"github.com/openebs/sparse-tools/sparse"
)

// C10 (codec of the counter file): the real readRevisionCounter / writeRevisionCounter
// (decimal text in one 4 KiB O_DIRECT block) over a byte-exact model of the file.
// Only in this harness are the two functions not replaced by the counter cell.

// the counter file's bytes; O_DIRECT contract: offset and length of every transfer are
// multiples of 512, otherwise EINVAL
var zzCtrBytes []byte
var zzCtrWrites int

func zzCtrReadAt(f *sparse.DirectFileIoProcessor, data []byte, off int64) (int, error) {
	if off%512 != 0 || len(data)%512 != 0 {
		return 0, syscall.EINVAL
	}
	if int(off) >= len(zzCtrBytes) {
		return 0, io.EOF
	}
	n := copy(data, zzCtrBytes[off:])
	if n < len(data) {
		return n, io.EOF
	}
	return n, nil
}

func zzCtrWriteAt(f *sparse.DirectFileIoProcessor, data []byte, off int64) (int, error) {
	if off%512 != 0 || len(data)%512 != 0 {
		return 0, syscall.EINVAL
	}
	zzCtrWrites++
	for int(off)+len(data) > len(zzCtrBytes) {
		zzCtrBytes = append(zzCtrBytes, 0)
	}
	copy(zzCtrBytes[off:], data)
	return len(data), nil
}

var zzCodecBases = []int64{0, 5, 95, 995, 4090, 65530, 99995, 2147483642, 4294967290, 999999995,
	9007199254740986, 999999999999999995, 9223372036854775795}

func ZZ_C10_CounterCodec() {
	fs := zzInstallFS()
	zzCtrBytes, zzCtrWrites = nil, 0
	// a fresh directory: the counter starts at 1
	r, err := zzOpenReplica()
	zzAssert(err == nil && r != nil, "C10.codec.open-failed")
	if r == nil {
		return
	}
	zzAssert(r.revisionCache == 1 && r.GetRevisionCounter() == 1, "C10.codec.fresh-counter-not-one")
	r.mode = types.RW
	// a long value first, so that a shorter one written later has stale digits to hide
	zzAssert(r.SetRevisionCounter(1234567890123) == nil, "C10.codec.set-failed")
	v := zzCodecBases[zzConcretize(zzChoice("base", len(zzCodecBases)))] + int64(zzConcretize(zzChoice("d", 11)))
	zzAssert(r.SetRevisionCounter(v) == nil, "C10.codec.set-failed")
	zzAssert(r.GetRevisionCounter() == v, "C10.codec.value-read-back-differs")
	buf := make([]byte, 4096)
	_, werr := r.WriteAt(buf, 0)
	zzAssert(werr == nil, "C10.codec.write-failed")
	zzAssert(r.GetRevisionCounter() == v+1, "C10.codec.increment-read-back-differs")
	zzAssert(len(zzCtrBytes) == 4096, "C10.codec.counter-file-not-one-4KiB-block")
	// reopen: the persisted text parses back to the same value
	fs.Revive()
	r2, oerr := zzOpenReplica()
	zzAssert(oerr == nil && r2 != nil, "C10.codec.reopen-failed")
	if r2 != nil {
		zzAssert(r2.revisionCache == v+1, "C10.codec.reopen-reads-different-counter")
	}
	zzReach("C10.codec.done")
}
