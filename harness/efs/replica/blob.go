package replica

import (
	"syscall"

	fibmap "github.com/frostschutz/go-fibmap"
	"github.com/openebs/jiva/types"
)

// zzBlob: in-memory data file of the directory-level harnesses (4 KiB blocks).
type zzBlob struct {
	fd      uintptr
	blocks  int
	present []bool
	data    []byte
	closed  bool
	// failNextWrite: the next WriteAt fails without effect (symbolic fault)
	failNextWrite bool
	writes        int
}

const zzMaxBlocks = 4

var zzBlobs = map[uintptr]*zzBlob{}
var zzNextBlobFd uintptr = 100

func zzNewBlob(blocks int) *zzBlob {
	zzNextBlobFd++
	if blocks < zzMaxBlocks {
		blocks = zzMaxBlocks // room to grow: the logical size is the directory entry's Size
	}
	b := &zzBlob{fd: zzNextBlobFd, blocks: blocks, present: make([]bool, blocks), data: make([]byte, blocks*4096)}
	zzBlobs[b.fd] = b
	return b
}

func (f *zzBlob) ReadAt(buf []byte, off int64) (int, error) {
	n := 0
	if int(off) < len(f.data) {
		n = copy(buf, f.data[off:])
	}
	if n < len(buf) {
		copy(buf[n:], make([]byte, len(buf)-n))
	}
	return len(buf), nil
}

func (f *zzBlob) WriteAt(buf []byte, off int64) (int, error) {
	if f.failNextWrite {
		f.failNextWrite = false
		return 0, zzErr("zz: injected data write failure")
	}
	f.writes++
	if int(off) < len(f.data) {
		n := copy(f.data[off:], buf)
		for b := int(off) / 4096; b*4096 < int(off)+n; b++ {
			f.present[b] = true
		}
	}
	return len(buf), nil
}

func (f *zzBlob) Close() error { f.closed = true; return nil }
func (f *zzBlob) Fd() uintptr  { return f.fd }

func zzBlobFiemap(fd uintptr, start, length uint64, size uint32) ([]fibmap.Extent, syscall.Errno) {
	f := zzBlobs[fd]
	if f == nil {
		return nil, syscall.EBADF
	}
	var out []fibmap.Extent
	if size >= 1024 {
		size = size / 1024 // scaled extent batch: see the E-file model (zzExtentBatch)
	}
	last := -1
	for b := 0; b < f.blocks; b++ {
		if f.present[b] {
			last = b
		}
	}
	b := 0
	for b < f.blocks {
		if !f.present[b] {
			b++
			continue
		}
		e := b
		for e+1 < f.blocks && f.present[e+1] {
			e++
		}
		lo, hi := uint64(b)*4096, uint64(e+1)*4096
		if hi > start && lo < start+length && uint32(len(out)) < size {
			ext := fibmap.Extent{Logical: lo, Length: hi - lo}
			if e == last {
				ext.Flags = fibmap.FIEMAP_EXTENT_LAST
			}
			out = append(out, ext)
		}
		b = e + 1
	}
	return out, 0
}

func zzBlobFallocate(fd int, mode uint32, off int64, length int64) error {
	f := zzBlobs[uintptr(fd)]
	if f == nil {
		return syscall.EBADF
	}
	if end := int(off + length); int(off) < len(f.data) && off >= 0 && length > 0 {
		if end > len(f.data) {
			end = len(f.data)
		}
		copy(f.data[off:end], make([]byte, end-int(off)))
	}
	for b := 0; b < f.blocks; b++ {
		if int64(b*4096) >= off && int64((b+1)*4096) <= off+length {
			f.present[b] = false
		}
	}
	return nil
}

func zzStartHoleWorker() {
	HoleCreatorChan = make(chan Hole, 64)
	types.DrainOps = 0
	go CreateHoles()
}

func zzBlobFstat(fd int, st *syscall.Stat_t) error {
	f := zzBlobs[uintptr(fd)]
	if f == nil {
		return syscall.EBADF
	}
	var blocks int64
	for i := 0; i < f.blocks; i++ {
		if f.present[i] {
			blocks += 8
		}
	}
	st.Blocks = blocks
	st.Size = int64(f.blocks) * 4096
	return nil
}

// sparse.AllocateAligned: a zeroed buffer of the requested size (its alignment for
// O_DIRECT is not observable in the model)
func zzAllocateAligned(size int) []byte { return make([]byte, size) }
