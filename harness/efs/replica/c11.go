package replica

import "github.com/openebs/jiva/types"

// C11 (guards): the head, the latest snapshot and the base are never accepted for
// deletion; an accepted request only marks the snapshot.
func ZZ_C11_Guards() {
	fs := zzInstallFS()
	n := zzParam("SNAPS", 3)
	r := zzPreState(fs, n)
	ch, _ := r.Chain()
	pool := append([]string{}, ch...)
	pool = append(pool, "a", "b", "c", "nosuch", "")
	name := pool[zzConcretize(zzChoice("name", len(pool)))]
	full := name
	if _, ok := r.diskData[full]; !ok {
		full = GenerateSnapshotDiskName(name)
	}
	head, latest, base := ch[0], ch[1], ch[len(ch)-1]
	protected := full == head || full == latest || full == base
	before := zzMemDigest(r)
	op := zzConcretize(zzChoice("op", 2))
	var err error
	if op == 0 {
		_, err = r.PrepareRemoveDisk(name)
	} else {
		err = r.RemoveDiffDisk(name)
		protected = name == head || name == latest || name == base
	}
	after := zzMemDigest(r)
	if protected {
		zzReach("C11.protected")
		if op == 0 {
			zzAssert(err != nil, "C11.PrepareRemoveDisk-accepted-head-latest-or-base")
		} else if name != base {
			zzAssert(err != nil, "C11.RemoveDiffDisk-accepted-head-or-latest")
		}
		if err != nil {
			zzAssert(zzSameAttrs(before, after), "C11.refused-deletion-changed-the-chain")
		}
	} else if err == nil {
		zzReach("C11.accepted")
		zzAssert(zzSameChain(before, after) || op == 1, "C11.PrepareRemoveDisk-changed-the-chain")
	}
	zzWellFormed("C11.guards", r)
	_ = types.RW
}

// C11 (a deletion carried out the way the cleaner does it): PrepareRemoveDisk's actions
// are executed literally - coalesce = the blocks of Source are folded over Target (the
// sfold contract), remove = RemoveDiffDisk(Source) - on a chain whose snapshots hold
// data, with arbitrary user-created flags and with other snapshots already marked removed
// but not yet taken (the cleaner orders by size, and may not take a snapshot whose merge
// target is a retained user snapshot).  The victim obeys the cleaner's own rule (its
// direct parent is not a retained user-created snapshot).  Afterwards the live volume and
// every retained user-created snapshot read what they read before, also after a reopen.
func ZZ_C11_DeleteSequence() {
	n := zzParam("DELSNAPS", 4)
	fs := zzInstallFS()
	r, err := zzOpenReplica()
	zzAssume(err == nil)
	r.mode = types.RW
	names := []string{"d0", "d1", "d1.img", "d3", "d4", "d5"} // d1 / d1.img: one disk name a prefix of the other
	for i := 0; i < n; i++ {
		buf := make([]byte, 4096)
		buf[0] = byte(i + 1)
		_, werr := r.WriteAt(buf, int64(i%2)*4096)
		zzAssume(werr == nil)
		zzAssume(r.Snapshot(names[i], zzNondetBool("user"), "t") == nil)
	}
	d := &r.volume
	// snapshots already marked removed and still in the chain (not base, not latest)
	for i := 1; i < n-1; i++ {
		if zzNondetBool("pending-removal") {
			_, perr := r.PrepareRemoveDisk(names[i])
			zzAssume(perr == nil)
		}
	}
	victimIdx := 1 + zzConcretize(zzChoice("victim", n-2)) // d1..d(n-2): neither base nor latest
	victim := GenerateSnapshotDiskName(names[victimIdx])
	parent := r.diskData[victim].Parent
	pd := r.diskData[parent]
	zzAssume(pd != nil && !(pd.UserCreated && !pd.Removed))
	// what is read before
	live := make([]byte, 2*4096)
	_, rerr := r.ReadAt(live, 0)
	zzAssume(rerr == nil)
	images := map[string][]byte{}
	retained := map[string]bool{}
	for k := 1; k < len(d.files)-1; k++ {
		name := r.activeDiskData[k].Name
		images[name] = zzSnapImage(d, k)
		dd := r.diskData[name]
		retained[name] = dd.UserCreated && !dd.Removed && name != victim
	}
	actions, aerr := r.PrepareRemoveDisk(victim)
	zzAssert(aerr == nil, "C11.delete.prepare-refused-a-removable-snapshot")
	if aerr != nil {
		return
	}
	for _, a := range actions {
		switch a.Action {
		case OpCoalesce:
			r.ZZFold(a.Source, a.Target)
		case OpRemove:
			zzAssert(r.RemoveDiffDisk(a.Source) == nil, "C11.delete.remove-failed")
		}
	}
	check := func(tag string, rep *Replica) {
		dd := &rep.volume
		rb := make([]byte, 2*4096)
		_, e := rep.ReadAt(rb, 0)
		zzAssert(e == nil, "C11.delete.read-failed"+tag)
		zzAssert(rb[0] == live[0] && rb[4096] == live[4096], "C11.delete.live-data-changed"+tag)
		for k := 1; k < len(dd.files)-1; k++ {
			name := rep.activeDiskData[k].Name
			if retained[name] {
				got, want := zzSnapImage(dd, k), images[name]
				zzAssert(got[0] == want[0] && got[1] == want[1], "C11.delete.retained-user-snapshot-changed"+tag)
			}
		}
	}
	check("", r)
	zzWellFormed("C11.delete", r)
	zzAssume(r.Close() == nil)
	fs.Revive()
	r2, oerr := zzOpenReplica()
	zzAssert(oerr == nil && r2 != nil, "C11.delete.reopen-failed")
	if r2 != nil {
		zzAssume(PreloadLunMap(&r2.volume) == nil)
		check(".after-reopen", r2)
	}
	zzReach("C11.delete.done")
}
