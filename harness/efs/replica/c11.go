package replica

import "github.com/openebs/jiva/types"

// C11 (guards): the head, the latest snapshot and the base are never accepted for
// deletion; an accepted request only marks the snapshot.
func ZZ_C11_Guards() {
	fs := zzInstallFS()
	n := zzParam("SNAPS", 3)
	r := zzPreState(fs, n)
	ch, _ := r.Chain()
	pool := append([]string{}, ch...)
	pool = append(pool, "a", "b", "c", "nosuch", "")
	name := pool[zzConcretize(zzChoice("name", len(pool)))]
	full := name
	if _, ok := r.diskData[full]; !ok {
		full = GenerateSnapshotDiskName(name)
	}
	head, latest, base := ch[0], ch[1], ch[len(ch)-1]
	protected := full == head || full == latest || full == base
	before := zzMemDigest(r)
	op := zzConcretize(zzChoice("op", 2))
	var err error
	if op == 0 {
		_, err = r.PrepareRemoveDisk(name)
	} else {
		err = r.RemoveDiffDisk(name)
		protected = name == head || name == latest || name == base
	}
	after := zzMemDigest(r)
	if protected {
		zzReach("C11.protected")
		if op == 0 {
			zzAssert(err != nil, "C11.PrepareRemoveDisk-accepted-head-latest-or-base")
		} else if name != base {
			zzAssert(err != nil, "C11.RemoveDiffDisk-accepted-head-or-latest")
		}
		if err != nil {
			zzAssert(zzSameAttrs(before, after), "C11.refused-deletion-changed-the-chain")
		}
	} else if err == nil {
		zzReach("C11.accepted")
		zzAssert(zzSameChain(before, after) || op == 1, "C11.PrepareRemoveDisk-changed-the-chain")
	}
	zzWellFormed("C11.guards", r)
	_ = types.RW
}
