// Package zzfs is the harness-side model of the replica directory: a single POSIX
// directory with hard links, atomic rename, and metadata files holding one JSON
// object each.  It exists only in the verification overlay.  Every call is one step;
// a symbolic step index makes that call fail (no effect, error returned) or makes
// the process die just before a mutating step (all later calls have no effect).
package zzfs

//zz:rt

import (
	gopath "path"
	"encoding/json"
	"errors"
	"io"
	"os"
	"sort"
	"syscall"
	"time"
)

type Inode struct {
	ID    int
	Dir   bool
	Nlink int
	Meta  interface{} // object last written by json.Encoder.Encode (a private copy)
	Valid bool        // content is a complete JSON object
	Data  interface{} // data blob (set by the replica harness for image files)
	Size  int64
	Ctr   int64 // revision counter cell (revision.counter)
}

type handle struct {
	ino    *Inode
	name   string
	isDir  bool
	closed bool
}

type FS struct {
	Dir      string
	Entries  map[string]*Inode
	DirDirty bool
	// Durable: the directory's entries as of the last successful fsync of the directory
	// (what survives a power loss; file contents are not part of this model)
	Durable  map[string]*Inode
	Steps    int // every call
	MutSteps int // mutating calls
	FailAt   int // index into Steps, -1 = none
	CrashAt  int // index into MutSteps, -1 = none
	Failed   bool
	Dead     bool
	Trace    []string
	nextID   int
	files    map[*os.File]*handle
	encs     map[*json.Encoder]*os.File
	decs     map[*json.Decoder]*os.File
}

var (
	Cur *FS
	// hooks set by the package that knows the metadata types
	Clone  func(v interface{}) interface{}
	Assign func(dst, src interface{}) bool
	// NewData makes an empty data blob for a freshly created image file
	NewData func(name string) interface{}
)

func New(dir string) *FS {
	fs := &FS{Dir: dir, Entries: map[string]*Inode{}, FailAt: -1, CrashAt: -1,
		files: map[*os.File]*handle{}, encs: map[*json.Encoder]*os.File{}, decs: map[*json.Decoder]*os.File{}}
	Cur = fs
	return fs
}

// Revive: a new process opens the same directory.
func (fs *FS) Revive() {
	fs.Dead, fs.Failed = false, false
	fs.FailAt, fs.CrashAt = -1, -1
	fs.files = map[*os.File]*handle{}
	fs.encs = map[*json.Encoder]*os.File{}
	fs.decs = map[*json.Decoder]*os.File{}
}

func base(p string) string {
	i := len(p) - 1
	for i >= 0 && p[i] != '/' {
		i--
	}
	return p[i+1:]
}

// OnStep, when set, runs at the start of every file-system call: real file I/O is a
// scheduling point, a harness lets other goroutines run there.
var OnStep func()

// step: returns (dead, fail)
func (fs *FS) step(op string, mutating bool) (bool, bool) {
	if OnStep != nil {
		OnStep()
	}
	if fs.Dead {
		return true, false
	}
	n := fs.Steps
	fs.Steps++
	if mutating {
		m := fs.MutSteps
		fs.MutSteps++
		if m == fs.CrashAt {
			fs.Dead = true
			fs.Trace = append(fs.Trace, "CRASH before "+op)
			return true, false
		}
	}
	if n == fs.FailAt {
		fs.Failed = true
		fs.Trace = append(fs.Trace, "FAIL "+op)
		return false, true
	}
	fs.Trace = append(fs.Trace, op)
	return false, false
}

func perr(op, path string, e syscall.Errno) error { return &os.PathError{Op: op, Path: path, Err: e} }

func (fs *FS) newInode(dir bool) *Inode {
	fs.nextID++
	return &Inode{ID: fs.nextID, Dir: dir, Nlink: 1}
}

// ---- redirect targets -----------------------------------------------------

func Mkdir(path string, perm os.FileMode) error {
	fs := Cur
	if path == fs.Dir {
		// the replica directory itself
		if dead, fail := fs.step("mkdir", false); dead || fail {
			return perr("mkdir", path, syscall.EIO)
		}
		return perr("mkdir", path, syscall.EEXIST)
	}
	return perr("mkdir", path, syscall.EIO)
}

func OpenFile(path string, flag int, perm os.FileMode) (*os.File, error) {
	fs := Cur
	name := base(path)
	mut := flag&(os.O_CREATE|os.O_TRUNC) != 0
	if dead, fail := fs.step("open "+name, mut); dead || fail {
		if mut {
			return nil, perr("open", path, syscall.ENOSPC)
		}
		return nil, perr("open", path, syscall.EIO)
	}
	if path == fs.Dir {
		f := new(os.File)
		fs.files[f] = &handle{name: name, isDir: true}
		return f, nil
	}
	ino, ok := fs.Entries[name]
	if !ok {
		if flag&os.O_CREATE == 0 {
			return nil, perr("open", path, syscall.ENOENT)
		}
		ino = fs.newInode(false)
		fs.Entries[name] = ino
		fs.DirDirty = true
	} else if flag&os.O_CREATE != 0 && flag&os.O_EXCL != 0 {
		return nil, perr("open", path, syscall.EEXIST)
	}
	if flag&os.O_TRUNC != 0 {
		ino.Meta, ino.Valid, ino.Size = nil, false, 0
	}
	f := new(os.File)
	fs.files[f] = &handle{ino: ino, name: name}
	return f, nil
}

func Open(path string) (*os.File, error) { return OpenFile(path, os.O_RDONLY, 0) }
func Create(path string) (*os.File, error) {
	return OpenFile(path, os.O_RDWR|os.O_CREATE|os.O_TRUNC, 0666)
}

type fileInfo struct {
	name string
	size int64
	dir  bool
}

func (fi fileInfo) Name() string { return fi.name }
func (fi fileInfo) Size() int64  { return fi.size }
func (fi fileInfo) Mode() os.FileMode {
	if fi.dir {
		return os.ModeDir | 0700
	}
	return 0600
}
func (fi fileInfo) ModTime() time.Time { return time.Time{} }
func (fi fileInfo) IsDir() bool        { return fi.dir }
func (fi fileInfo) Sys() interface{}   { return nil }

func Stat(path string) (os.FileInfo, error) {
	fs := Cur
	name := base(path)
	if dead, fail := fs.step("stat "+name, false); dead || fail {
		return nil, perr("stat", path, syscall.EIO)
	}
	if path == fs.Dir {
		return fileInfo{name: name, dir: true}, nil
	}
	ino, ok := fs.Entries[name]
	if !ok {
		return nil, perr("stat", path, syscall.ENOENT)
	}
	return fileInfo{name: name, size: ino.Size, dir: ino.Dir}, nil
}

func Remove(path string) error {
	fs := Cur
	name := base(path)
	if dead, fail := fs.step("unlink "+name, true); dead || fail {
		return perr("remove", path, syscall.EIO)
	}
	ino, ok := fs.Entries[name]
	if !ok {
		return perr("remove", path, syscall.ENOENT)
	}
	ino.Nlink--
	delete(fs.Entries, name)
	fs.DirDirty = true
	return nil
}

func RemoveAll(path string) error {
	fs := Cur
	if dead, fail := fs.step("removeall", true); dead || fail {
		return perr("removeall", path, syscall.EIO)
	}
	for k := range fs.Entries {
		delete(fs.Entries, k)
	}
	fs.DirDirty = true
	return nil
}

func Rename(oldpath, newpath string) error {
	fs := Cur
	on, nn := base(oldpath), base(newpath)
	if dead, fail := fs.step("rename "+on+" "+nn, true); dead || fail {
		return &os.LinkError{Op: "rename", Old: oldpath, New: newpath, Err: syscall.EIO}
	}
	ino, ok := fs.Entries[on]
	if !ok {
		return &os.LinkError{Op: "rename", Old: oldpath, New: newpath, Err: syscall.ENOENT}
	}
	if old, ok := fs.Entries[nn]; ok {
		old.Nlink--
	}
	fs.Entries[nn] = ino
	delete(fs.Entries, on)
	fs.DirDirty = true
	return nil
}

func Link(oldpath, newpath string) error {
	fs := Cur
	on, nn := base(oldpath), base(newpath)
	if dead, fail := fs.step("link "+on+" "+nn, true); dead || fail {
		return &os.LinkError{Op: "link", Old: oldpath, New: newpath, Err: syscall.ENOSPC}
	}
	ino, ok := fs.Entries[on]
	if !ok {
		return &os.LinkError{Op: "link", Old: oldpath, New: newpath, Err: syscall.ENOENT}
	}
	if _, ok := fs.Entries[nn]; ok {
		return &os.LinkError{Op: "link", Old: oldpath, New: newpath, Err: syscall.EEXIST}
	}
	ino.Nlink++
	fs.Entries[nn] = ino
	fs.DirDirty = true
	return nil
}

func ReadDir(dir string) ([]os.FileInfo, error) {
	fs := Cur
	if dead, fail := fs.step("readdir", false); dead || fail {
		return nil, perr("readdir", dir, syscall.EIO)
	}
	var names []string
	for k := range fs.Entries {
		names = append(names, k)
	}
	sort.Strings(names)
	var out []os.FileInfo
	for _, n := range names {
		ino := fs.Entries[n]
		out = append(out, fileInfo{name: n, size: ino.Size, dir: ino.Dir})
	}
	return out, nil
}

// Glob: path/filepath.Glob over the one directory of the model (the pattern's directory
// part is literal; the last element is matched with path.Match's syntax, which is
// filepath.Match's on unix).
func Glob(pattern string) ([]string, error) {
	fs := Cur
	if dead, fail := fs.step("glob", false); dead || fail {
		return nil, nil // Glob ignores I/O errors
	}
	dir, last := pattern, ""
	for i := len(pattern) - 1; i >= 0; i-- {
		if pattern[i] == '/' {
			dir, last = pattern[:i], pattern[i+1:]
			break
		}
	}
	var names []string
	for k := range fs.Entries {
		names = append(names, k)
	}
	sort.Strings(names)
	var out []string
	for _, n := range names {
		ok, err := gopath.Match(last, n)
		if err != nil {
			return nil, err
		}
		if ok {
			out = append(out, dir+"/"+n)
		}
	}
	return out, nil
}

func Truncate(path string, size int64) error {
	fs := Cur
	name := base(path)
	if dead, fail := fs.step("truncate "+name, true); dead || fail {
		return syscall.ENOSPC
	}
	ino, ok := fs.Entries[name]
	if !ok {
		return syscall.ENOENT
	}
	ino.Size = size
	return nil
}

func errnoOf(err error) (syscall.Errno, bool) {
	switch e := err.(type) {
	case *os.PathError:
		en, ok := e.Err.(syscall.Errno)
		return en, ok
	case *os.LinkError:
		en, ok := e.Err.(syscall.Errno)
		return en, ok
	case syscall.Errno:
		return e, true
	}
	return 0, false
}

func IsNotExist(err error) bool {
	if err == nil {
		return false
	}
	if err == os.ErrNotExist {
		return true
	}
	en, ok := errnoOf(err)
	return ok && en == syscall.ENOENT
}

func IsExist(err error) bool {
	if err == nil {
		return false
	}
	if err == os.ErrExist {
		return true
	}
	en, ok := errnoOf(err)
	return ok && (en == syscall.EEXIST || en == syscall.ENOTEMPTY)
}

// ---- *os.File methods ----

func FileClose(f *os.File) error {
	fs := Cur
	h := fs.files[f]
	if h == nil || h.closed {
		return os.ErrClosed
	}
	h.closed = true
	return nil
}

func FileSync(f *os.File) error {
	fs := Cur
	h := fs.files[f]
	if h == nil {
		return os.ErrClosed
	}
	if dead, fail := fs.step("fsync "+h.name, true); dead || fail {
		return perr("sync", h.name, syscall.EIO)
	}
	if h.isDir {
		fs.MarkDurable()
	}
	return nil
}

// MarkDurable: every directory update made so far is on disk.
func (fs *FS) MarkDurable() {
	fs.Durable = map[string]*Inode{}
	for k, v := range fs.Entries {
		fs.Durable[k] = v
	}
	fs.DirDirty = false
}

// PowerLoss: the machine dies; the directory is what the last successful fsync of it
// made durable, and a new process starts.
func (fs *FS) PowerLoss() {
	fs.Entries = map[string]*Inode{}
	for k, v := range fs.Durable {
		fs.Entries[k] = v
	}
	fs.DirDirty = false
	fs.Revive()
}

func FileName(f *os.File) string {
	if h := Cur.files[f]; h != nil {
		return h.name
	}
	return ""
}

// ---- JSON: one object per metadata file ----

func NewEncoder(w io.Writer) *json.Encoder {
	e := new(json.Encoder)
	if f, ok := w.(*os.File); ok {
		Cur.encs[e] = f
	}
	return e
}

func Encode(e *json.Encoder, v interface{}) error {
	fs := Cur
	f := fs.encs[e]
	h := fs.files[f]
	if h == nil || h.closed {
		return os.ErrClosed
	}
	dead, fail := fs.step("write "+h.name, true)
	if dead {
		return perr("write", h.name, syscall.EIO)
	}
	if fail {
		// short write: the file holds a truncated, undecodable object
		h.ino.Meta, h.ino.Valid, h.ino.Size = nil, false, 1
		return perr("write", h.name, syscall.ENOSPC)
	}
	h.ino.Meta = Clone(v)
	h.ino.Valid = true
	h.ino.Size = 200
	return nil
}

func NewDecoder(r io.Reader) *json.Decoder {
	d := new(json.Decoder)
	if f, ok := r.(*os.File); ok {
		Cur.decs[d] = f
	}
	return d
}

func Decode(d *json.Decoder, v interface{}) error {
	fs := Cur
	f := fs.decs[d]
	h := fs.files[f]
	if h == nil || h.closed {
		return os.ErrClosed
	}
	if dead, fail := fs.step("read "+h.name, false); dead || fail {
		return perr("read", h.name, syscall.EIO)
	}
	if !h.ino.Valid || h.ino.Meta == nil {
		if h.ino.Size == 0 {
			return io.EOF
		}
		return io.ErrUnexpectedEOF
	}
	if !Assign(v, h.ino.Meta) {
		return errors.New("json: cannot unmarshal object into Go value of this type")
	}
	return nil
}

// ---- util ----

func SyncDir(dir string) error {
	f, err := Open(dir)
	if err != nil {
		return err
	}
	err = FileSync(f)
	closeErr := FileClose(f)
	if err != nil {
		return err
	}
	return closeErr
}

func GetFileActualSize(path string) int64 {
	fs := Cur
	name := base(path)
	if dead, fail := fs.step("stat(size) "+name, false); dead || fail {
		return -1
	}
	ino, ok := fs.Entries[name]
	if !ok {
		return -1
	}
	if ino.Data != nil && DataUsed != nil {
		return DataUsed(ino.Data)
	}
	return 0
}

// DataUsed reports the allocated bytes of a data blob (hook).
var DataUsed func(d interface{}) int64

