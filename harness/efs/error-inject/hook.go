package inject

// ZZUpdateLUNMapHook runs at the point where Server.UpdateLUNMap calls
// inject.AddUpdateLUNMapTimeout (between the unlocked preload and the locked merge).
var ZZUpdateLUNMapHook func()

func zzAddUpdateLUNMapTimeout() {
	if ZZUpdateLUNMapHook != nil {
		ZZUpdateLUNMapHook()
	}
}
