package util

import "errors"

// ZZSetLoggingFails: outcome of the stubbed SetLogging (lumberjack log rotation is
// environment); set by the harness.
var ZZSetLoggingFails bool

func zzSetLogging(dir string, lf LogToFile) error {
	if ZZSetLoggingFails {
		return errors.New("zz: cannot set logging")
	}
	return nil
}
