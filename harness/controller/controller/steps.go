package controller

import (
	"github.com/openebs/jiva/types"
	"github.com/openebs/jiva/zzmodel"
)

// One-step harnesses: an arbitrary quiescent state satisfying Inv-C, one entry
// point with every stub outcome symbolic, then Inv-C again (C18, C03) plus the
// entry point's own contract.

// pool of addresses an API caller may pass: every attached one, one fresh, one unknown
func (e *zzEnv) zzAnyAddr(tag string) string {
	k := zzConcretize(zzChoice(tag, e.rf+2))
	if k <= e.rf && k < len(zzAddrs) {
		return zzAddrs[k]
	}
	return "tcp://nowhere:9502"
}

func ZZ_Step_ReadAt() {
	rf := zzParam("RF", 3)
	e := zzSymbolicEnv(rf)
	c := e.c
	c.backend.next = zzChoice("next", rf+1)
	buf := make([]byte, 8)
	off := zzNondetInt64("off")
	zzAssume(zzAnd(off >= 0, off <= c.size-8))
	var rwAtEntry []string
	for _, r := range c.replicas {
		if r.Mode == types.RW {
			rwAtEntry = append(rwAtEntry, r.Address)
		}
	}
	n, err := c.ReadAt(buf, off)
	zzAssert(!zzmodel.ReadFromNonRW, "C04.read-served-by-non-RW-replica")
	for _, m := range zzmodel.Replicas {
		if m.Reads > 0 {
			was := false
			for _, a := range rwAtEntry {
				if a == m.Addr {
					was = true
				}
			}
			zzAssert(was, "C04.read-invoked-on-replica-not-RW-at-entry")
		}
	}
	if len(rwAtEntry) == 0 {
		zzReach("C04.noRW")
		zzAssert(err != nil, "C04.read-succeeded-without-RW-replica")
		for _, m := range zzmodel.Replicas {
			zzAssert(m.Reads == 0, "C04.read-reached-backend-without-RW")
		}
	}
	if err == nil {
		zzReach("C04.ok")
		zzAssert(n == len(buf), "C04.short-read-reported-ok")
		// served by a replica that is RW and still attached
		served := ""
		for _, a := range rwAtEntry {
			if buf[0] == a[7] {
				served = a
			}
		}
		zzAssert(served != "", "C04.data-not-from-RW-replica")
		if served != "" {
			zzAssert(zzmodel.Replicas[served].ReadsOK > 0, "C04.read-reported-ok-but-the-serving-replica-failed-it")
			zzAssert(e.modeOf(served) == types.RW, "C04.serving-replica-not-RW-after")
		}
	} else {
		zzReach("C04.err")
		// every RW replica was tried and failed
		for _, a := range rwAtEntry {
			zzAssert(zzmodel.Replicas[a].Reads > 0, "C04.failed-without-trying-every-RW-replica")
		}
	}
	// a reader that failed is detached on return
	for _, a := range rwAtEntry {
		m := zzmodel.Replicas[a]
		if m.Reads > 0 && !(err == nil && buf[0] == a[7] && m.ReadsOK > 0) {
			zzReach("C04.failover")
			zzAssert(!e.attached(a), "C04.failed-reader-still-attached")
		}
	}
	e.zzCheckInvC("C04.read.post", false, err == nil)
	zzSettle()
	e.zzCheckInvC("C04.read.settled", true, err == nil)
}

func ZZ_Step_Snapshot() {
	rf := zzParam("RF", 3)
	e := zzSymbolicEnv(rf)
	c := e.c
	name := zzPick("snapname", "s1", "")
	nonErr := e.zzWriters()
	rwBefore := e.countMode(types.RW)
	got, err := c.Snapshot(name)
	if rwBefore != rf {
		zzReach("C13.refused")
		zzAssert(err != nil, "C13.snapshot-accepted-without-all-RF-RW")
		for _, m := range zzmodel.Replicas {
			zzAssert(len(m.Snapshots) == 0, "C13.refused-snapshot-reached-a-replica")
		}
	}
	// every replica that took a snapshot took the same one
	for _, m := range zzmodel.Replicas {
		for _, s := range m.Snapshots {
			zzAssert(s == got, "C13.replicas-got-different-snapshot-names")
		}
	}
	if err == nil {
		zzReach("C13.ok")
		// every replica still in service took it
		for _, r := range c.replicas {
			if r.Mode != types.ERR {
				zzAssert(len(zzmodel.Replicas[r.Address].Snapshots) == 1, "C13.in-service-replica-without-snapshot")
			}
		}
	}
	// replicas that failed the snapshot are ERR (or already gone) on return
	for _, a := range nonErr {
		m := zzmodel.Replicas[a]
		asked := false
		for _, act := range m.Actions {
			if act == "snapshot" {
				asked = true
			}
		}
		if asked && len(m.Snapshots) == 0 {
			zzReach("C13.partial")
			zzAssert(!e.attached(a) || e.modeOf(a) == types.ERR, "C13.failed-replica-still-in-service")
		}
	}
	e.zzCheckInvC("snapshot.post", false, err == nil)
	zzSettle()
	e.zzCheckInvC("snapshot.settled", true, err == nil)
}

func ZZ_Step_Resize() {
	rf := zzParam("RF", 3)
	e := zzSymbolicEnv(rf)
	c := e.c
	name := zzPick("volname", "vol", "other")
	size := zzPick("size", "2M", "1M", "512K", "junk", "")
	old := c.size
	nonErr := e.zzWriters()
	err := c.Resize(name, size)
	grown := size == "2M"
	if !grown || name != "vol" {
		zzReach("C16.refused")
		zzAssert(err != nil, "C16.shrink-or-invalid-resize-accepted")
		zzAssert(c.size == old, "C16.size-changed-by-refused-resize")
		for _, m := range zzmodel.Replicas {
			zzAssert(len(m.ResizeTo) == 0, "C16.refused-resize-reached-a-replica")
		}
		zzAssert(len(e.fe.resized) == 0, "C16.refused-resize-reached-frontend")
	}
	if err == nil {
		zzReach("C16.ok")
		zzAssert(c.size == 2<<20, "C16.size-not-updated")
		zzAssert(len(e.fe.resized) == 1, "C16.frontend-not-resized")
		for _, r := range c.replicas {
			if r.Mode != types.ERR {
				zzAssert(len(zzmodel.Replicas[r.Address].ResizeTo) == 1, "C16.in-service-replica-not-resized")
			}
		}
	} else {
		zzAssert(c.size == old, "C16.size-changed-by-failed-resize")
	}
	for _, a := range nonErr {
		m := zzmodel.Replicas[a]
		asked := false
		for _, act := range m.Actions {
			if act == "resize" {
				asked = true
			}
		}
		if asked && len(m.ResizeTo) == 0 {
			zzAssert(!e.attached(a) || e.modeOf(a) == types.ERR, "C16.replica-that-failed-resize-still-in-service")
		}
	}
	e.zzCheckInvC("resize.post", false, err == nil)
	zzSettle()
	e.zzCheckInvC("resize.settled", true, err == nil)
}

func ZZ_Step_RemoveReplica() {
	rf := zzParam("RF", 3)
	e := zzSymbolicEnvReg(rf, true)
	addr := e.zzAnyAddr("addr")
	was := e.attached(addr)
	err := e.c.RemoveReplica(addr)
	zzAssert(err == nil, "C18.remove-returned-error")
	zzAssert(!e.attached(addr), "C18.removed-replica-still-listed")
	if was {
		zzReach("remove.attached")
		_, still := e.c.backend.backends[addr]
		zzAssert(!still, "C18.removed-replica-still-has-backend")
		// its registration goes with it: a replica that left has to register again (with
		// its then-current revision count) to take part in a later bootstrap
		_, reg := e.c.RegisteredReplicas[zzHostOf(addr)]
		zzAssert(!reg, "C09.removed-replica-still-registered")
	}
	e.zzCheckInvC("remove.post", false, true)
	zzSettle()
	e.zzCheckInvC("remove.settled", true, true)
}

func ZZ_Step_SetModeERR() {
	rf := zzParam("RF", 3)
	e := zzSymbolicEnv(rf)
	addr := e.zzAnyAddr("addr")
	mode := zzPick("mode", "ERR", "RW", "WO", "INIT", "")
	pre := len(e.c.replicas)
	preMode := e.modeOf(addr)
	err := e.c.SetReplicaMode(addr, types.Mode(mode))
	if mode != "ERR" && mode != "RW" {
		zzAssert(err != nil, "C18.setmode-invalid-mode-accepted")
		zzAssert(len(e.c.replicas) == pre, "C18.setmode-invalid-mode-changed-membership")
	}
	if mode == "RW" {
		zzAssert(err == nil, "C18.setmode-RW-refused")
		zzAssert(len(e.c.replicas) == pre, "C18.setmode-RW-changed-membership")
		zzAssert(zzImplies(preMode != "", e.modeOf(addr) == types.RW), "C18.setmode-RW-not-applied")
	}
	e.zzCheckInvC("setmode.post", false, err == nil)
	// a second update for the same address arrives before the monitor has removed the
	// replica: ERR is sticky, and both structures must still agree
	switch zzPick("second", "none", "RW", "ERR") {
	case "RW":
		err2 := e.c.SetReplicaMode(addr, types.RW)
		zzAssert(err2 == nil, "C18.setmode-second-RW-refused")
		if mode == "ERR" && preMode != "" {
			zzReach("setmode.rw-after-err")
			zzAssert(!e.attached(addr) || e.modeOf(addr) == types.ERR, "C18.ERR-replica-revived-by-mode-update")
		}
		e.zzCheckInvC("setmode.second", false, true)
	case "ERR":
		e.c.SetReplicaMode(addr, types.ERR)
		e.zzCheckInvC("setmode.second", false, true)
	}
	zzSettle()
	if mode == "ERR" && err == nil {
		zzReach("setmode.err")
		zzAssert(!e.attached(addr), "C05.replica-marked-ERR-not-detached-after-settling")
	}
	e.zzCheckInvC("setmode.settled", true, err == nil)
}

func ZZ_Step_MonitorEvent() {
	rf := zzParam("RF", 3)
	e := zzSymbolicEnvReg(rf, true)
	zzAssume(e.n > 0)
	i := zzConcretize(zzChoice("victim", e.n))
	addr := zzAddrs[i]
	if zzNondetBool("clean-stop") {
		// the data connection broke: reported through closeChan, no error on the monitor channel
		e.f.remotes[addr].ZZInjectConnectionClosed()
		zzReach("monitor.clean-stop")
	} else {
		e.f.remotes[addr].ZZInjectMonitorError(zzmodel.ErrIO)
	}
	zzSettle()
	zzReach("monitor.event")
	zzAssert(!e.attached(addr), "C05.replica-with-failed-ping-still-attached")
	_, still := e.c.backend.backends[addr]
	zzAssert(!still, "C05.replica-with-failed-ping-still-has-backend")
	_, reg := e.c.RegisteredReplicas[zzHostOf(addr)]
	zzAssert(!reg, "C09.detached-replica-still-registered")
	e.zzCheckInvC("monitor.settled", true, true)
}

func ZZ_Step_AddReplica() {
	rf := zzParam("RF", 3)
	e := zzSymbolicEnv(rf)
	c := e.c
	c.IsSnapDeletionInProgress = zzNondetBool("snapdeletion")
	addr := e.zzAnyAddr("addr")
	// arbitrary revision counters on the replicas (take-over test)
	for i := 0; i <= rf && i < len(zzAddrs); i++ {
		zzmodel.Replicas[zzAddrs[i]].RevCounter = zzNondetInt64("rev." + zzHosts[i])
	}
	was := e.attached(addr)
	pre := len(c.replicas)
	err := c.AddReplica(addr)
	if err == nil {
		zzReach("add.ok")
		zzAssert(!was, "C18.add-of-attached-address-accepted")
		zzAssert(e.modeOf(addr) == types.WO, "C07.added-replica-not-WO")
		zzAssert(zzmodel.Replicas[addr].Mode == "WO", "C07.added-replica-not-told-WO")
	} else {
		zzReach("add.refused")
		if was {
			zzAssert(len(c.replicas) == pre, "C18.refused-duplicate-add-changed-membership")
		}
	}
	if c.IsSnapDeletionInProgress {
		zzAssert(err != nil, "C11.add-accepted-during-snapshot-deletion")
	}
	e.zzCheckInvC("add.post", false, err == nil)
	zzSettle()
	e.zzCheckInvC("add.settled", true, err == nil)
}

func ZZ_Step_Revert() {
	rf := zzParam("RF", 3)
	e := zzSymbolicEnv(rf)
	err := e.c.Revert("s1")
	if e.countMode(types.WO) > 0 {
		zzAssert(err != nil, "C18.revert-accepted-during-rebuild")
	}
	e.zzCheckInvC("revert.post", false, err == nil)
	zzSettle()
	e.zzCheckInvC("revert.settled", true, err == nil)
}


func zzHostOf(addr string) string {
	for i, a := range zzAddrs {
		if a == addr {
			return zzHosts[i]
		}
	}
	return ""
}
