package controller

import (
	"github.com/openebs/jiva/types"
	"github.com/openebs/jiva/zzmodel"
)

// C06 / C12 at volume level: Controller.Revert(name).  Accepted => every replica still in
// service reverted, once, to exactly volume-snap-<name>.img, the frontend is serving
// again, and a replica whose revert failed is out of service (it still holds the
// pre-revert image).  Refused (a replica is rebuilding, no RW replica) => no replica was
// asked to revert and the frontend was not taken down.
func ZZ_C06_VolumeRevert() {
	rf := zzParam("RF", 3)
	e := zzSymbolicEnv(rf)
	c := e.c
	wo, rw := e.countMode(types.WO), e.countMode(types.RW)
	feBefore := e.fe.state
	downs := e.fe.shutdowns
	for i := 0; i < e.n; i++ {
		zzmodel.Replicas[zzAddrs[i]].Chain = []string{"volume-head-002.img", "volume-snap-s2.img", "volume-snap-s1.img", "volume-snap-s1.img.img"}
	}
	// the API takes the snapshot's name; its disk is volume-snap-<name>.img, whatever the
	// name looks like
	name := zzPick("name", "s1", "s1.img", "s2", "volume-snap-s1", "volume-snap-s1.img", "nosuch", "")
	want := "volume-snap-" + name + ".img"
	exists := name == "s1" || name == "s1.img" || name == "s2"
	err := c.Revert(name)
	zzAssert(zzLockDepth(&c.RWMutex) == 0, "C06.volume-revert.lock-left-held")
	zzSettle()
	reverted := 0
	for i := 0; i <= rf && i < len(zzAddrs); i++ {
		m := zzmodel.Replicas[zzAddrs[i]]
		if m == nil {
			continue
		}
		reverted += len(m.RevertedTo)
		for _, n := range m.RevertedTo {
			zzAssert(n == want, "C06.volume-revert.replica-reverted-to-another-snapshot-than-the-one-named")
		}
		zzAssert(len(m.RevertedTo) <= 1, "C06.volume-revert.replica-reverted-twice")
	}
	if wo > 0 || rw == 0 {
		zzReach("C06.volume-revert.refused")
		zzAssert(err != nil, "C06.volume-revert.accepted-while-rebuilding-or-without-RW-replica")
		zzAssert(reverted == 0, "C06.volume-revert.refused-but-a-replica-reverted")
		zzAssert(e.fe.shutdowns == downs && e.fe.state == feBefore, "C06.volume-revert.refused-but-frontend-taken-down")
	}
	for _, r := range c.replicas {
		m := zzmodel.Replicas[r.Address]
		if r.Mode != types.RW || m == nil {
			continue
		}
		failed := false
		for _, a := range m.FailedActions {
			if a == "revert" {
				failed = true
			}
		}
		zzAssert(!failed, "C06.volume-revert.replica-whose-revert-failed-still-in-service")
		if err == nil {
			zzAssert(len(m.RevertedTo) == 1, "C06.volume-revert.accepted-but-in-service-replica-did-not-revert")
		}
	}
	if !exists {
		zzReach("C06.volume-revert.unknown-name")
		zzAssert(err != nil && reverted == 0, "C06.volume-revert.unknown-snapshot-name-accepted")
	}
	if err == nil {
		zzReach("C06.volume-revert.accepted")
		zzAssert(reverted > 0, "C06.volume-revert.accepted-without-any-replica-reverting")
		zzAssert(e.fe.state == types.StateUp, "C06.volume-revert.accepted-but-frontend-down")
	}
	e.zzCheckInvC("C06.volume-revert.settled", true, false)
}
