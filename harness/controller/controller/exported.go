package controller

import "github.com/openebs/jiva/zzmodel"

// Exported entry points for harnesses in other packages (controller/rest).

// ZZSymbolicController: a controller in an arbitrary quiescent state (Inv-C).
func ZZSymbolicController(rf int) *Controller {
	e := zzSymbolicEnvReg(rf, true)
	// arbitrary chains / checkpoint on the replicas and the controller
	for i := 0; i < e.n; i++ {
		m := zzmodel.Replicas[zzAddrs[i]]
		m.Chain = []string{"volume-head-001.img", "volume-snap-a.img"}
	}
	if e.n == rf && zzNondetBool("has-checkpoint") {
		e.c.Checkpoint = "volume-snap-a.img"
	}
	return e.c
}

func (c *Controller) ZZLockDepth() int { return zzLockDepth(&c.RWMutex) }
func ZZAddr(i int) string            { return zzAddrs[i] }
