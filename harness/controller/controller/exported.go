package controller

import (
	"github.com/openebs/jiva/types"
	"github.com/openebs/jiva/zzmodel"
)

// Exported entry points for harnesses in other packages (controller/rest).

// ZZSymbolicController: a controller in an arbitrary quiescent state (Inv-C).
func ZZSymbolicController(rf int) *Controller {
	e := zzSymbolicEnvReg(rf, true)
	// arbitrary chains / checkpoint on the replicas and the controller
	// the chain each replica reports: empty when it was closed behind the controller's
	// back (s.r == nil: a restarted or closed replica not yet noticed by its monitor),
	// head only, or chains of different lengths
	normal := []string{"volume-head-001.img", "volume-snap-a.img"}
	long := []string{"volume-head-002.img", "volume-snap-b.img", "volume-snap-a.img"}
	headOnly := []string{"volume-head-001.img"}
	scenarios := [][][]string{
		{normal, normal, normal},
		{{}, normal, normal},
		{normal, {}, normal},
		{headOnly, long, normal},
		{long, headOnly, normal},
		{normal, long, long},
	}
	sc := scenarios[zzConcretize(zzChoice("chains", len(scenarios)))]
	for i := 0; i < e.n; i++ {
		m := zzmodel.Replicas[zzAddrs[i]]
		m.Chain = sc[i%3]
		m.Checkpoint = zzPick("cp."+zzHosts[i], "", "volume-snap-a.img", "volume-snap-zz.img")
	}
	if e.n == rf && zzNondetBool("has-checkpoint") {
		e.c.Checkpoint = "volume-snap-a.img"
	}
	return e.c
}

func (c *Controller) ZZLockDepth() int { return zzLockDepth(&c.RWMutex) }
func ZZAddr(i int) string            { return zzAddrs[i] }

// ZZWriteLockUnlock takes and releases the controller's write lock (what every I/O and
// every membership-changing request does first).
func (c *Controller) ZZWriteLockUnlock() { c.Lock(); c.Unlock() }

// ZZOnReplicaCall installs f to run at the start of every call into a replica (a network
// round trip, i.e. a scheduling point); nil removes it.
func ZZOnReplicaCall(f func()) { zzmodel.OnCall = f }

// ZZReplicaActions: management actions the replica model at pool index i received.
func ZZReplicaActions(i int) []string {
	m := zzmodel.Replicas[zzAddrs[i]]
	if m == nil {
		return nil
	}
	return m.Actions
}

// ZZRegisteredRev: the revision count the controller recorded for a registered host.
func (c *Controller) ZZRegisteredRev(host string) (int64, bool) {
	r, ok := c.RegisteredReplicas[host]
	return r.RevCount, ok
}

// ZZEmptyController: a controller with no replicas (bootstrap), replication factor rf.
func ZZEmptyController(rf int) *Controller { return zzNewEnv(rf).c }
func ZZHost(i int) string              { return zzHosts[i] }

func (c *Controller) ZZRegisteredHosts() string {
	s := ""
	for h := range c.RegisteredReplicas {
		s += "[" + h + "]"
	}
	return s
}

// ZZAttachWitness attaches the spare address of the pool as a witness (quorum) replica
// the way POST /v1/quorumreplicas does, fault-free; false when the controller refuses.
func ZZAttachWitness(c *Controller) bool {
	e := zzLastEnv
	zzmodel.NoFaults = true
	nf := e.f.noFail
	e.f.noFail = true
	err := c.AddQuorumReplica(zzAddrs[e.rf])
	zzmodel.NoFaults = false
	e.f.noFail = nf
	return err == nil
}

// ZZSymbolicControllerLite: membership, modes and checkpoint symbolic; every replica
// holds the same two-element chain.
func ZZSymbolicControllerLite(rf int) *Controller { return zzSymbolicEnvReg(rf, false).c }

// ZZCheckMembership asserts the membership invariant Inv-C (settled form) on the
// controller built last.
func (c *Controller) ZZCheckMembership(tag string) { zzLastEnv.zzCheckInvC(tag, true, false) }

// ZZHealthyController: all RF replicas attached RW over the chain head -> b -> a, no
// faults drawn from now on; returns the controller.
func ZZHealthyController(rf int) *Controller {
	e := zzNewEnv(rf)
	e.n = rf
	for i := 0; i < rf; i++ {
		e.zzAttach(i, types.RW)
		zzmodel.Replicas[zzAddrs[i]].Chain = []string{"volume-head-002.img", "volume-snap-b.img", "volume-snap-a.img"}
	}
	e.fe.state = types.StateUp
	e.c.RWReplicaCount = rf
	e.c.ReadOnly = false
	zzmodel.NoFaults = true
	e.f.noFail = true
	e.fe.noFail = true
	return e.c
}

// ZZModel: what the replica model at pool index i recorded.
func ZZModel(i int) *zzmodel.Replica { return zzmodel.Replicas[zzAddrs[i]] }

// ZZModeOf: the mode the controller lists for pool address i ("" = not a member).
func (c *Controller) ZZModeOf(i int) string {
	for _, r := range c.replicas {
		if r.Address == zzAddrs[i] {
			return string(r.Mode)
		}
	}
	return ""
}
func (c *Controller) ZZSize() int64 { return c.size }
