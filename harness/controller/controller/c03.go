package controller

import (
	"github.com/openebs/jiva/types"
	"github.com/openebs/jiva/zzmodel"
)

// C03 — writes only while a quorum of replicas is RW.

func (e *zzEnv) dataOps() int {
	k := 0
	for _, m := range zzmodel.Replicas {
		k += len(m.Applied) + len(m.Failed)
	}
	return k
}

// Gate, settled form: in any quiescent state with #RW < RF/2+1 the three mutating
// I/O calls fail and reach no replica; with a quorum and healthy replicas they succeed.
func ZZ_C03_Gate() {
	rf := zzParam("RF", 3)
	e := zzSymbolicEnv(rf)
	c := e.c
	rw := e.countMode(types.RW)
	op := zzConcretize(zzChoice("op", 3))
	zzmodel.OpSeq = 1
	var ok bool
	buf := make([]byte, 8)
	switch op {
	case 0:
		n, err := c.WriteAt(buf, 0)
		ok = n == len(buf) && err == nil
	case 1:
		n, err := c.Sync()
		ok = n == 0 && err == nil
	default:
		n, err := c.Unmap(0, 4096)
		ok = n == 0 && err == nil
	}
	if rw < rf/2+1 {
		zzReach("C03.below-quorum")
		zzAssert(!ok, "C03.io-accepted-below-quorum")
		zzAssert(e.dataOps() == 0, "C03.refused-io-reached-a-replica")
	} else {
		zzReach("C03.quorum")
	}
}

// Liveness half: once changes have settled, a volume with a quorum of RW replicas
// accepts a write when the replicas are healthy.
func ZZ_C03_Liveness() {
	rf := zzParam("RF", 3)
	e := zzSymbolicEnv(rf)
	c := e.c
	rw := e.countMode(types.RW)
	zzmodel.NoFaults = true
	zzmodel.OpSeq = 1
	buf := make([]byte, 8)
	n, err := c.WriteAt(buf, 0)
	if rw >= rf/2+1 {
		zzReach("C03.live")
		zzAssert(n == len(buf) && err == nil, "C03.write-refused-with-quorum")
	}
}

// Strict form: a mode change made by Snapshot / Resize / SetReplicaMode(ERR) /
// Revert must be reflected in the read-only status before the next I/O is admitted,
// even if the monitor goroutine has not run yet.
func ZZ_C03_StrictGate() {
	rf := zzParam("RF", 3)
	e := zzSymbolicEnv(rf)
	c := e.c
	op := zzConcretize(zzChoice("op", 3))
	switch op {
	case 0:
		c.Snapshot("s1")
	case 1:
		c.Resize("vol", "2M")
	default:
		c.SetReplicaMode(e.zzAnyAddr("addr"), types.ERR)
	}
	// no settling here: the monitor goroutines have not been scheduled
	rw := e.countMode(types.RW)
	before := e.dataOps()
	zzmodel.OpSeq = 1
	buf := make([]byte, 8)
	n, err := c.WriteAt(buf, 0)
	ok := n == len(buf) && err == nil
	if rw < rf/2+1 {
		zzReach("C03.strict.below-quorum")
		if op == 0 {
			zzAssert(!ok, "C03.strict.write-admitted-below-quorum-after-failed-snapshot")
			zzAssert(e.dataOps() == before, "C03.strict.write-reached-replica-below-quorum-after-failed-snapshot")
		} else if op == 1 {
			zzAssert(!ok, "C03.strict.write-admitted-below-quorum-after-failed-resize")
			zzAssert(e.dataOps() == before, "C03.strict.write-reached-replica-below-quorum-after-failed-resize")
		} else {
			zzAssert(!ok, "C03.strict.write-admitted-below-quorum-after-setmode-ERR")
			zzAssert(e.dataOps() == before, "C03.strict.write-reached-replica-below-quorum-after-setmode-ERR")
		}
	}
}


// The gate and the I/O it admits are one critical section: an I/O that arrives while a
// membership-changing operation is in progress (Snapshot / Resize hold the controller
// lock across calls to the replicas, which are scheduling points; a replica failing
// there is marked ERR) is decided on the status after that change. No write, flush or
// unmap reaches a replica while fewer than a quorum are RW.
func ZZ_C03_GateRace() {
	rf := zzParam("RF", 3)
	e := zzSymbolicEnv(rf)
	zzAssume(e.n > 0)
	c := e.c
	zzmodel.RWCount = func() int { return e.countMode(types.RW) }
	kind := zzConcretize(zzChoice("io", 3))
	done := make(chan bool, 1)
	gate := make(chan struct{})
	opened := false
	go func() {
		<-gate // the I/O arrives while the operation below is inside a call to a replica
		var err error
		buf := make([]byte, 8)
		switch kind {
		case 0:
			_, err = c.WriteAt(buf, 0)
		case 1:
			_, err = c.Sync()
		default:
			_, err = c.Unmap(0, 4096)
		}
		done <- err == nil
	}()
	zzmodel.OnCall = func() {
		if !opened && zzWriteLocked(&c.RWMutex) {
			opened = true
			close(gate)
		}
		zzYield()
	}
	if zzNondetBool("resize") {
		c.Resize("vol", "2M")
	} else {
		c.Snapshot("s1")
	}
	zzmodel.OnCall = nil
	if !opened {
		close(gate)
	}
	zzSettle()
	zzAssert(len(done) == 1, "C03.race.io-did-not-finish")
	zzAssert(!zzmodel.DataOpBelowQuorum, "C03.race.io-reached-a-replica-below-quorum")
	zzReach("C03.race.done")
	e.zzCheckInvC("C03.race", true, true)
}
