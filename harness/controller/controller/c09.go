package controller

import (
	"github.com/openebs/jiva/types"
	"github.com/openebs/jiva/zzmodel"
)

// C09 — bootstrap election.

func ZZ_C09_Election() {
	rf := zzParam("RF", 3)
	k := zzParam("K", 3)
	e := zzNewEnv(rf)
	c := e.c
	nh := rf + 1
	if nh > len(zzHosts) {
		nh = len(zzHosts)
	}
	// per host: revision count (A-rev-stable); at most one host is mid-rebuild; at most
	// one host dies (becomes unreachable) at a symbolic step; optionally h1 and h2 are the
	// same replica (same UUID) that came back under a new address.
	rev := make([]int64, nh)
	for i := 0; i < nh; i++ {
		rev[i] = zzNondetInt64("rev." + zzHosts[i])
		zzAssume(rev[i] >= 0) // A-rev-nonneg: a revision counter starts at 1 and only grows
	}
	rebuildingHost := zzConcretize(zzChoice("rebuilding.host", nh+1)) // nh = none
	dieStep := zzConcretize(zzChoice("die.step", k+1))               // k = never
	dieHost := 0
	if dieStep < k {
		dieHost = zzConcretize(zzChoice("die.host", nh))
	}
	sharedUUID := false
	if zzParam("UUID", 1) == 1 {
		sharedUUID = zzNondetBool("h1-h2-same-uuid")
	}
	hostIdx := func(h string) int {
		for i := 0; i < nh; i++ {
			if zzHosts[i] == h {
				return i
			}
		}
		return -1
	}
	freshElection := false
	e.f.onSignal = func(target, action string) {
		if action != "start" {
			return
		}
		zzReach("C09.signalled")
		ti := hostIdx(target)
		zzAssert(ti >= 0, "C09.signal-to-unknown-target")
		if ti < 0 || !freshElection {
			return // re-signal of the already elected replica: not a new pick
		}
		zzReach("C09.elected")
		zzAssert(len(c.RegisteredReplicas) >= rf/2+1, "C09.start-signalled-before-majority-registered")
		zzAssert(ti != rebuildingHost, "C09.elected-replica-is-rebuilding")
		for a := range c.RegisteredReplicas {
			ai := hostIdx(a)
			if ai >= 0 && ai != rebuildingHost && !e.f.dead[a] {
				zzAssert(rev[ai] <= rev[ti], "C09.elected-replica-not-highest-revision")
			}
		}
	}
	for step := 0; step < k; step++ {
		if step == dieStep {
			e.f.dead[zzHosts[dieHost]] = true
		}
		i := zzConcretize(zzChoice("reg.host", nh))
		if e.f.dead[zzHosts[i]] {
			continue // a dead host does not register
		}
		uuid := "uuid-" + zzHosts[i]
		if sharedUUID && i < 2 {
			uuid = "uuid-shared"
		}
		state := "closed"
		if i == rebuildingHost {
			state = "rebuilding"
		}
		// a pick happens unless the call merely re-signals the standing leader
		freshElection = !(c.StartSignalled && zzHosts[i] == c.MaxRevReplica)
		c.RegisterReplica(types.RegReplica{Address: zzHosts[i], UUID: uuid, RevCount: rev[i], RepType: "Backend", RepState: state})
		zzAssert(zzLockDepth(&c.RWMutex) == 0, "C09.register-left-lock-held")
	}
	// Start: only the elected replica can start the volume
	elected := c.MaxRevReplica
	x := 0
	if zzParam("STARTALL", 1) == 1 {
		x = zzConcretize(zzChoice("start.host", nh))
	} else {
		// the elected host (if any) or its successor in the pool
		x = hostIdx(elected)
		if x < 0 {
			x = 0
		}
		if zzNondetBool("start.other") {
			x = (x + 1) % nh
		}
	}
	zzmodel.NoFaults = true
	e.f.noFail = true
	e.f.onSignal = nil
	if elected != "" && zzNondetBool("start.from-a-host-whose-name-extends-the-elected-one") {
		// another replica whose address merely starts like the elected one's (10.0.0.1 vs
		// 10.0.0.12): it was not elected and must not be able to start the volume
		sib := "tcp://" + elected + "2:9502"
		zzmodel.New(sib)
		serr := c.Start(sib)
		zzReach("C09.start.sibling")
		zzAssert(serr != nil, "C09.volume-started-by-a-replica-whose-address-only-resembles-the-elected-one")
		zzAssert(len(c.replicas) == 0, "C09.non-elected-look-alike-replica-attached")
		return
	}
	zzmodel.Replicas[zzAddrs[x]].RevCounter = rev[x]
	err := c.Start(zzAddrs[x])
	if err == nil && len(c.replicas) > 0 {
		zzReach("C09.started")
		zzAssert(zzHosts[x] == elected, "C09.volume-started-by-non-elected-replica")
	}
	if zzHosts[x] != elected {
		zzAssert(len(c.replicas) == 0, "C09.non-elected-replica-attached")
	}
	zzSettle()
	e.zzCheckInvC("C09.start.settled", true, err == nil)
}

// One registration from the "election reset" state: several replicas are registered but
// no leader is standing (StartSignalled=false, MaxRevReplica=""). That state is what a
// failed Start of the signalled replica leaves (rmReplicaFromRegisteredReplicas resets the
// election and, keyed by the tcp:// address, deletes nothing), and what a failed signal
// or an unreachable leader leave with one entry fewer. Any subset of hosts may be
// registered, with arbitrary revision counts, at most one of them mid-rebuild.
func ZZ_C09_Reelection() {
	rf := zzParam("RF", 3)
	e := zzNewEnv(rf)
	c := e.c
	nh := rf + 1
	if nh > len(zzHosts) {
		nh = len(zzHosts)
	}
	rev := make([]int64, nh)
	rebuildingHost := zzConcretize(zzChoice("rebuilding.host", nh+1)) // nh = none
	for i := 0; i < nh; i++ {
		rev[i] = zzNondetInt64("rev." + zzHosts[i])
		zzAssume(rev[i] >= 0)
	}
	stateOf := func(i int) string {
		if i == rebuildingHost {
			return "rebuilding"
		}
		return "closed"
	}
	for i := 0; i < nh; i++ {
		if zzNondetBool("pre.registered." + zzHosts[i]) {
			c.RegisteredReplicas[zzHosts[i]] = types.RegReplica{Address: zzHosts[i], UUID: "uuid-" + zzHosts[i], RevCount: rev[i], RepType: "Backend", RepState: stateOf(i)}
		}
	}
	hostIdx := func(h string) int {
		for i := 0; i < nh; i++ {
			if zzHosts[i] == h {
				return i
			}
		}
		return -1
	}
	e.f.onSignal = func(target, action string) {
		if action != "start" {
			return
		}
		zzReach("C09.reelection.elected")
		ti := hostIdx(target)
		zzAssert(ti >= 0, "C09.reelection.signal-to-unknown-target")
		if ti < 0 {
			return
		}
		zzAssert(len(c.RegisteredReplicas) >= rf/2+1, "C09.reelection.start-signalled-before-majority-registered")
		zzAssert(ti != rebuildingHost, "C09.reelection.elected-replica-is-rebuilding")
		for a := range c.RegisteredReplicas {
			ai := hostIdx(a)
			if ai >= 0 && ai != rebuildingHost {
				zzAssert(rev[ai] <= rev[ti], "C09.reelection.elected-replica-not-highest-revision")
			}
		}
	}
	i := zzConcretize(zzChoice("reg.host", nh))
	c.RegisterReplica(types.RegReplica{Address: zzHosts[i], UUID: "uuid-" + zzHosts[i], RevCount: rev[i], RepType: "Backend", RepState: stateOf(i)})
	zzAssert(zzLockDepth(&c.RWMutex) == 0, "C09.reelection.register-left-lock-held")
	zzReach("C09.reelection.done")
}

// Start with replicas whose revision counter is found lower: they are not used for reads.
func ZZ_C09_StartRevisionConflict() {
	rf := zzParam("RF", 3)
	e := zzNewEnv(rf)
	c := e.c
	e.f.noFail = true
	n := zzConcretize(zzChoice("n", rf) + 1)
	var addrs []string
	for i := 0; i < n; i++ {
		m := zzmodel.Replicas[zzAddrs[i]]
		m.RevCounter = zzNondetInt64("rev." + zzHosts[i])
		zzAssume(m.RevCounter >= 0)
		addrs = append(addrs, zzAddrs[i])
		c.RegisteredReplicas[zzHosts[i]] = types.RegReplica{Address: zzHosts[i], UUID: "u" + zzHosts[i], RevCount: m.RevCounter}
	}
	c.MaxRevReplica = zzHosts[0]
	c.StartSignalled = true
	zzmodel.NoFaults = true
	err := c.Start(addrs...)
	if err == nil {
		zzReach("C09.multi-start")
		var max int64
		for i := 0; i < n; i++ {
			r := zzmodel.Replicas[zzAddrs[i]].RevCounter
			max = zzIteInt64(r > max, r, max)
		}
		for i := 0; i < n; i++ {
			if zzmodel.Replicas[zzAddrs[i]].RevCounter != max {
				zzReach("C09.conflict")
				zzAssert(e.modeOf(zzAddrs[i]) != types.RW, "C09.stale-replica-left-RW-at-start")
				for _, a := range zzReaderAddrs(c) {
					zzAssert(a != zzAddrs[i], "C09.stale-replica-is-reader-after-start")
				}
			}
		}
	}
	buf := make([]byte, 8)
	c.ReadAt(buf, 0)
	zzAssert(!zzmodel.ReadFromNonRW, "C09.read-served-by-stale-replica")
	zzSettle()
	e.zzCheckInvC("C09.conflict.settled", true, err == nil)
}

// Two registrations overlapping while the signalled leader is dead.  The liveness probe
// of the leader is a network round trip (a scheduling point): whatever the interleaving,
// every replica asked to start holds the highest revision count among the registered,
// reachable replicas, and a reachable replica never loses its registration.
func ZZ_C09_ConcurrentRegister() {
	rf := zzParam("RF", 3)
	e := zzNewEnv(rf)
	c := e.c
	hosts := zzHosts[:4] // h1: signalled leader, now dead; h2: registered; h3, h4: registering now
	rev := make([]int64, 4)
	for i := range rev {
		rev[i] = zzNondetInt64("rev." + hosts[i])
		zzAssume(rev[i] >= 0)
	}
	zzAssume(rev[0] >= rev[1]) // h1 was elected over h2
	for i := 0; i < 2; i++ {
		c.RegisteredReplicas[hosts[i]] = types.RegReplica{Address: hosts[i], UUID: "uuid-" + hosts[i], RevCount: rev[i], RepType: "Backend", RepState: "closed"}
	}
	c.MaxRevReplica = hosts[0]
	c.StartSignalled = true
	e.f.dead[hosts[0]] = true
	e.f.noFail = true
	done := make(chan int, 2)
	firstProbe := true
	e.f.onProbe = func() {
		if !firstProbe {
			return
		}
		firstProbe = false
		// the other registration runs as far as it can while this probe is in flight
		zzYield()
		if !zzSymbolic() {
			for i := 0; i < 600 && len(done) == 0; i++ {
				zzYield() // natively: wait until it finished, or evidently cannot (lock held)
			}
		}
	}
	registered := map[string]bool{hosts[1]: true} // reachable replicas whose registration completed
	idx := func(h string) int {
		for i, x := range hosts {
			if x == h {
				return i
			}
		}
		return -1
	}
	e.f.onSignal = func(target, action string) {
		if action != "start" {
			return
		}
		ti := idx(target)
		zzAssert(ti > 0, "C09.concurrent.start-signal-to-dead-or-unknown-replica")
		if ti <= 0 {
			return
		}
		zzReach("C09.concurrent.signalled")
		for h := range registered {
			zzAssert(rev[idx(h)] <= rev[ti], "C09.concurrent.elected-replica-not-highest-revision")
		}
	}
	go func() {
		c.RegisterReplica(types.RegReplica{Address: hosts[3], UUID: "uuid-" + hosts[3], RevCount: rev[3], RepType: "Backend", RepState: "closed"})
		registered[hosts[3]] = true
		done <- 3
	}()
	c.RegisterReplica(types.RegReplica{Address: hosts[2], UUID: "uuid-" + hosts[2], RevCount: rev[2], RepType: "Backend", RepState: "closed"})
	registered[hosts[2]] = true
	zzSettleMs(8000) // natively the liveness probe retries three times, one second apart
	zzAssert(len(done) == 1, "C09.concurrent.registration-did-not-finish")
	zzAssert(zzLockDepth(&c.RWMutex) == 0, "C09.concurrent.lock-left-held")
	for h := range registered {
		_, ok := c.RegisteredReplicas[h]
		zzAssert(ok, "C09.concurrent.reachable-replica-lost-its-registration")
	}
	// (an election is sticky once the leader was signalled: a later registrant with a
	// higher count does not unseat a reachable leader, so nothing is asserted about the
	// standing leader's rank at the end)
	zzAssert(c.MaxRevReplica != hosts[0], "C09.concurrent.dead-replica-still-leader")
	zzReach("C09.concurrent.done")
}

// C09 (a replica that registered after the leader was signalled is not passed over for
// good): two replicas register and one of them is signalled; a third registers with any
// revision count while the leader has not started yet; the leader's registration loop
// times out and it registers again.  After that registration the replica that is allowed
// to start - and was signalled last - holds the highest revision count of the three (all
// alive, none rebuilding); a lower one cannot start the volume.
func ZZ_C09_LeaderReRegisters() {
	rf := 3
	e := zzNewEnv(rf)
	c := e.c
	zzmodel.NoFaults = true
	e.f.noFail = true
	rev := make([]int64, 3)
	for i := 0; i < 3; i++ {
		rev[i] = zzNondetInt64("rev." + zzHosts[i])
		zzAssume(zzAnd(rev[i] >= 0, rev[i] < 1<<40))
	}
	zzAssume(zzAnd(rev[0] != rev[1], zzAnd(rev[1] != rev[2], rev[0] != rev[2])))
	last := ""
	e.f.onSignal = func(target, action string) {
		if action == "start" {
			last = target
		}
	}
	reg := func(i int) {
		c.RegisterReplica(types.RegReplica{Address: zzHosts[i], UUID: "uuid-" + zzHosts[i], RevCount: rev[i], RepType: "Backend", RepState: "closed"})
	}
	reg(0)
	reg(1)
	leader := c.MaxRevReplica
	zzAssume(c.StartSignalled && leader != "")
	reg(2)
	li := 0
	if leader == zzHosts[1] {
		li = 1
	}
	if zzNondetBool("third-registers-twice") {
		reg(2)
	}
	reg(li) // the standing leader registers again
	best := 0
	for i := 1; i < 3; i++ {
		if rev[i] > rev[best] {
			best = i
		}
	}
	zzAssert(c.StartSignalled, "C09.reregister.no-replica-signalled-after-the-leader-registered-again")
	zzAssert(c.MaxRevReplica == zzHosts[best], "C09.reregister.replica-allowed-to-start-is-not-the-highest-revision-one")
	zzAssert(last == zzHosts[best], "C09.reregister.last-start-signal-not-sent-to-the-highest-revision-replica")
	// and a lower one is refused
	lower := (best + 1) % 3
	zzmodel.Replicas[zzAddrs[lower]].RevCounter = rev[lower]
	serr := c.Start(zzAddrs[lower])
	zzAssert(serr != nil && len(c.replicas) == 0, "C09.reregister.volume-started-by-a-lower-revision-replica")
	zzReach("C09.reregister.done")
}
