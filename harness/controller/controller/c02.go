package controller

import (
	"github.com/openebs/jiva/types"
	"github.com/openebs/jiva/zzmodel"
)

// C02 — a write/flush/unmap is acknowledged only after a strict majority of the
// attached writers applied it; laggards are detached before the call returns.

// zzWriterSnapshot: addresses of replicas that are writers (mode != ERR) now.
func (e *zzEnv) zzWriters() []string {
	e.preRO = e.c.ReadOnly // taken before the operation, with the writer set
	var w []string
	for _, r := range e.c.replicas {
		if r.Mode != types.ERR {
			w = append(w, r.Address)
		}
	}
	return w
}

func (e *zzEnv) zzCheckC02(tag string, W []string, id int, ack bool, kind string) {
	applied, failed := 0, 0
	for _, a := range W {
		m := zzmodel.Replicas[a]
		if m.HasApplied(id) {
			applied++
		}
		if m.HasFailed(id) {
			failed++
			// (b) every writer that returned an error is detached on return
			zzAssert(!e.attached(a), tag+".b.laggard-still-in-replicas")
			_, inBackends := e.c.backend.backends[a]
			zzAssert(!inBackends, tag+".b.laggard-still-in-backends")
			for _, wa := range zzWriterAddrs(e.c) {
				zzAssert(wa != a, tag+".b.laggard-still-writer")
			}
			for _, ra := range zzReaderAddrs(e.c) {
				zzAssert(ra != a, tag+".b.laggard-still-reader")
			}
		}
	}
	ok := len(W) - failed
	// (a) acknowledged => strict majority of the writers applied it
	zzAssert(zzImplies(ack, 2*applied > len(W)), tag+".a.ack-without-majority")
	// (d) no majority of successful writers => not acknowledged
	zzAssert(zzImplies(2*ok <= len(W), !ack), tag+".d.ack-on-minority")
	// (c) every replica still in service holds the acknowledged operation
	if ack {
		zzReach(tag + ".ack")
		for _, r := range e.c.replicas {
			if r.Mode != types.ERR {
				zzAssert(zzmodel.Replicas[r.Address].HasApplied(id), tag+".c.in-service-replica-missed-ack")
			}
		}
	} else {
		zzReach(tag + ".nack")
	}
	// liveness half of the claim: a failing minority does not surface as an error
	// when at least one RW replica survives
	// (the volume was writable when the operation arrived; that it may be read-only
	// afterwards - the failure took the RW count below the quorum - does not turn the
	// operation the majority applied into an error)
	if len(W) > 0 && 2*ok > len(W) && !e.preRO {
		rwLeft := 0
		for _, r := range e.c.replicas {
			if r.Mode == types.RW {
				rwLeft++
			}
		}
		if rwLeft > 0 {
			zzAssert(ack, tag+".e.minority-failure-surfaced")
		}
	}
}

func ZZ_C02_WriteStep() {
	rf := zzParam("RF", 3)
	e := zzSymbolicEnv(rf)
	e.zzCheckInvC("pre", true, true)
	buf := make([]byte, 8)
	off := zzNondetInt64("off")
	zzAssume(zzAnd(off >= 0, off <= e.c.size-8))
	W := e.zzWriters()
	ro := e.c.ReadOnly
	zzmodel.OpSeq = 1
	n, err := e.c.WriteAt(buf, off)
	ack := n == len(buf) && err == nil
	if ro {
		zzAssert(!ack, "C02.readonly-acked")
	}
	e.zzCheckC02("C02.write", W, 1, ack, "W")
	e.zzCheckInvC("C02.write.post", false, ack)
	zzSettle()
	e.zzCheckInvC("C02.write.settled", true, ack)
}

func ZZ_C02_SyncStep() {
	rf := zzParam("RF", 3)
	e := zzSymbolicEnv(rf)
	W := e.zzWriters()
	zzmodel.OpSeq = 1
	n, err := e.c.Sync()
	ack := n == 0 && err == nil
	e.zzCheckC02("C02.sync", W, 1, ack, "S")
	zzSettle()
	e.zzCheckInvC("C02.sync.settled", true, ack)
}

func ZZ_C02_UnmapStep() {
	rf := zzParam("RF", 3)
	e := zzSymbolicEnv(rf)
	W := e.zzWriters()
	zzmodel.OpSeq = 1
	n, err := e.c.Unmap(0, 4096)
	ack := n == 0 && err == nil
	e.zzCheckC02("C02.unmap", W, 1, ack, "U")
	zzSettle()
	e.zzCheckInvC("C02.unmap.settled", true, ack)
}
