package controller

import (
	"github.com/openebs/jiva/types"
	"github.com/openebs/jiva/zzmodel"
)

// C05 / C18 — short histories from an arbitrary quiescent state: failures detected
// through the I/O path, the monitor, or an explicit removal, in any order.

func ZZ_C05_History() {
	rf := zzParam("RF", 3)
	k := zzParam("K", 2)
	e := zzSymbolicEnv(rf)
	c := e.c
	since := map[string]int{} // first op id a replica must hold (attached before it)
	for _, r := range c.replicas {
		since[r.Address] = 1
	}
	var acked []int
	opid := 0
	for step := 0; step < k; step++ {
		before := map[string]types.Mode{}
		for _, r := range c.replicas {
			before[r.Address] = r.Mode
		}
		op := zzConcretize(zzChoice("op", 7))
		switch op {
		case 0: // write
			opid++
			zzmodel.OpSeq = opid
			W := e.zzWriters()
			buf := make([]byte, 8)
			n, err := c.WriteAt(buf, 0)
			ack := n == len(buf) && err == nil
			e.zzCheckC02("C05.write", W, opid, ack, "W")
			if ack {
				acked = append(acked, opid)
			}
		case 1: // a replica dies: every later call to it fails
			if e.n > 0 {
				v := zzConcretize(zzChoice("victim", e.n))
				zzmodel.Replicas[zzAddrs[v]].Dead = true
			}
		case 2: // ping failure reported by the monitor of a replica
			if e.n > 0 {
				v := zzConcretize(zzChoice("victim", e.n))
				if r, ok := e.f.remotes[zzAddrs[v]]; ok && e.attached(zzAddrs[v]) {
					r.ZZInjectMonitorError(zzmodel.ErrIO)
				}
			}
		case 3: // explicit removal
			c.RemoveReplica(e.zzAnyAddr("addr"))
		case 4: // read
			buf := make([]byte, 8)
			c.ReadAt(buf, 0)
			zzAssert(!zzmodel.ReadFromNonRW, "C05.read-served-by-non-RW-replica")
		case 5: // fresh add of an address that is not attached
			a := zzAddrs[rf]
			if !e.attached(a) {
				m := zzmodel.Replicas[a]
				m.State, m.Dead = "closed", false
				if c.AddReplica(a) == nil {
					since[a] = opid + 1
				}
			}
		default: // verify the rebuilding replica, chains equal
			if wo, ok := c.hasWOReplica(); ok {
				for _, r := range c.replicas {
					zzmodel.Replicas[r.Address].Chain = []string{"volume-head-000.img", "volume-snap-a.img"}
				}
				c.VerifyRebuildReplica(wo)
			}
		}
		zzSettle()
		// mode automaton: RW only via WO + verify; ERR never comes back
		for _, r := range c.replicas {
			b, was := before[r.Address]
			if !was {
				zzAssert(r.Mode == types.WO, "C05.replica-attached-directly-in-mode-other-than-WO")
			} else if b == types.WO && r.Mode == types.RW {
				zzAssert(op == 6, "C05.WO-replica-became-RW-without-verification")
			} else {
				zzAssert(r.Mode == b || r.Mode == types.ERR, "C05.illegal-mode-transition")
			}
		}
		// every replica in service holds every write acknowledged since it was attached
		for _, r := range c.replicas {
			if r.Mode == types.ERR {
				continue
			}
			m := zzmodel.Replicas[r.Address]
			for _, id := range acked {
				if id >= since[r.Address] {
					zzAssert(m.HasApplied(id), "C05.in-service-replica-misses-acknowledged-write")
				}
			}
		}
		// a dead replica is isolated once a detector has seen it and changes settled
		e.zzCheckInvC("C05.history", true, false)
	}
	zzReach("C05.history.done")
}
