package controller

import (
	"github.com/openebs/jiva/types"
	"github.com/openebs/jiva/zzmodel"
)

// C07 (gate): promotion of a rebuilding replica.

var zzSnapPool = []string{"volume-snap-a.img", "volume-snap-b.img", "volume-snap-c.img", "volume-snap-d.img"}

// zzSymChain: head + up to max snapshots drawn from the pool (symbolic content).
func zzSymChain(tag string, head string, max int) []string {
	n := zzConcretize(zzChoice(tag+".len", max+1))
	ch := []string{head}
	for i := 0; i < n; i++ {
		ch = append(ch, zzPick(tag+".s", zzSnapPool...))
	}
	return ch
}

func zzChainsEqualFrom(a, b []string, upto int) bool {
	// compares a[1:upto+1] with b[1:upto+1]
	if len(a) < upto+1 || len(b) < upto+1 {
		return false
	}
	eq := true
	for i := 1; i <= upto; i++ {
		eq = zzAnd(eq, a[i] == b[i])
	}
	return eq
}

func ZZ_C07_VerifyRebuild() {
	rf := zzParam("RF", 3)
	maxChain := zzParam("CHAIN", 3)
	e := zzSymbolicEnv(rf)
	c := e.c
	zzAssume(e.n > 0)
	addr := e.zzAnyAddr("addr")
	// arbitrary chains, checkpoint and counters on every attached replica
	for i := 0; i < e.n; i++ {
		m := zzmodel.Replicas[zzAddrs[i]]
		m.Chain = zzSymChain("chain."+zzHosts[i], "volume-head-00"+zzHosts[i][1:]+".img", maxChain)
		m.RevCounter = zzNondetInt64("rev." + zzHosts[i])
		m.Checkpoint = zzPick("cp."+zzHosts[i], "", "volume-snap-a.img", "volume-snap-b.img", "volume-snap-zz.img")
	}
	preMode := e.modeOf(addr)
	var src string
	for _, r := range c.replicas {
		if r.Mode == types.RW && src == "" {
			src = r.Address
		}
	}
	err := c.VerifyRebuildReplica(addr)
	if preMode == types.WO && err == nil {
		zzReach("C07.promoted")
		wo := zzmodel.Replicas[addr]
		zzAssert(e.modeOf(addr) == types.RW, "C07.verify-ok-but-not-RW")
		zzAssert(src != "", "C07.promoted-without-healthy-source")
		if src != "" {
			rw := zzmodel.Replicas[src]
			// sync point: position of the WO checkpoint in the RW chain, or the whole chain
			upto := len(rw.Chain) - 1
			if wo.Checkpoint != "" {
				found := false
				for i, s := range rw.Chain {
					if s == wo.Checkpoint && !found {
						upto = i
						found = true
					}
				}
				zzAssert(found, "C13.promoted-although-checkpoint-missing-from-source-chain")
			}
			zzAssert(zzChainsEqualFrom(rw.Chain, wo.Chain, upto), "C07.promoted-with-different-chain")
			zzAssert(wo.RevCounter == rw.RevCounter, "C10.promoted-with-different-revision-counter")
			zzAssert(wo.RevSets == 1, "C07.promoted-without-setting-revision-counter")
		}
		zzAssert(wo.Mode == "RW", "C07.promoted-but-replica-not-told-RW")
		isReader := false
		for _, a := range zzReaderAddrs(c) {
			if a == addr {
				isReader = true
			}
		}
		zzAssert(isReader, "C07.promoted-but-not-a-reader")
	}
	if preMode == types.WO && err != nil {
		zzReach("C07.refused")
		zzAssert(!e.attached(addr) || e.modeOf(addr) == types.WO || e.modeOf(addr) == types.ERR, "C07.verify-failed-but-mode-changed")
		for _, a := range zzReaderAddrs(c) {
			zzAssert(a != addr, "C07.unverified-replica-became-reader")
		}
	}
	if preMode == "" {
		zzAssert(err != nil, "C07.verify-of-unknown-replica-accepted")
	}
	e.zzCheckInvC("verify.post", false, err == nil)
	zzSettle()
	e.zzCheckInvC("verify.settled", true, err == nil)
}

// Two AddReplica calls racing through the window between addReplica's two critical
// sections (the lock is released around factory.Create).
type zzGateFactory struct {
	*zzFactory
	gate map[string]chan bool
}

func (g *zzGateFactory) Create(address string) (types.Backend, error) {
	if ch, ok := g.gate[address]; ok {
		<-ch
	}
	return g.zzFactory.Create(address)
}

func ZZ_C07_ConcurrentAdd() {
	rf := zzParam("RF", 3)
	e := zzSymbolicEnv(rf)
	c := e.c
	zzAssume(e.n < rf)
	a1, a2 := zzAddrs[e.n], zzAddrs[e.n+1]
	if zzmodel.Replicas[a2] == nil {
		zzmodel.New(a2)
	}
	for _, a := range []string{a1, a2} {
		zzmodel.Replicas[a].RevCounter = zzNondetInt64("rev." + a)
	}
	for i := 0; i < e.n; i++ {
		zzmodel.Replicas[zzAddrs[i]].RevCounter = zzNondetInt64("rev." + zzAddrs[i])
	}
	gf := &zzGateFactory{zzFactory: e.f, gate: map[string]chan bool{a1: make(chan bool, 1), a2: make(chan bool, 1)}}
	c.factory = gf
	var err1, err2 error
	done := make(chan int, 2)
	go func() { err1 = c.AddReplica(a1); done <- 1 }()
	go func() { err2 = c.AddReplica(a2); done <- 2 }()
	zzSettle() // both have passed (or failed) the first critical section
	if zzNondetBool("order") {
		gf.gate[a1] <- true
		zzSettle()
		gf.gate[a2] <- true
	} else {
		gf.gate[a2] <- true
		zzSettle()
		gf.gate[a1] <- true
	}
	zzSettle()
	<-done
	<-done
	zzReach("C07.concurrent-add")
	if err1 == nil && err2 == nil {
		zzReach("C07.both-added")
	}
	e.zzCheckInvC("concurrent-add.settled", true, false)
	zzAssert(e.countMode(types.WO) <= 1, "C07.two-replicas-rebuilding")
}

// Two overlapping add requests for the SAME address (a replica whose registration is
// retried, two POST /v1/replicas in flight), interleaved at the unlock window around
// factory.Create, followed by a request that changes that replica's mode.  The address is
// listed at most once, and the mode change does not end the controller process
// (setReplicaModeNoLock calls logrus.Fatalf when it finds an address twice).
func ZZ_C14_ConcurrentSameAdd() {
	rf := zzParam("RF", 3)
	e := zzSymbolicEnv(rf)
	c := e.c
	zzAssume(e.n < rf)
	a1 := zzAddrs[e.n]
	for i := 0; i <= e.n; i++ {
		zzmodel.Replicas[zzAddrs[i]].RevCounter = zzNondetInt64("rev." + zzAddrs[i])
	}
	gate := make(chan bool, 2)
	gf := &zzSharedGateFactory{zzFactory: e.f, gate: gate}
	c.factory = gf
	done := make(chan int, 2)
	go func() { c.AddReplica(a1); done <- 1 }()
	go func() { c.AddReplica(a1); done <- 2 }()
	zzSettle() // both have passed (or failed) the first admission check
	gate <- true
	zzSettle()
	gate <- true
	zzSettle()
	zzAssert(len(done) == 2, "C14.same-add.request-never-answered")
	n := 0
	for _, r := range c.replicas {
		if r.Address == a1 {
			n++
		}
	}
	zzAssert(n <= 1, "C18.same-add.address-listed-twice")
	zzTrapFatal()
	ended := zzTry(func() { c.SetReplicaMode(a1, types.ERR) })
	zzAssert(!ended, "C14.same-add.mode-change-terminated-the-controller")
	zzSettle()
	zzReach("C14.same-add.done")
}

// the second Create for an address finds the replica already open (as remote.Factory.Create
// would: state != closed) unless the first attachment has not opened it yet
type zzSharedGateFactory struct {
	*zzFactory
	gate chan bool
}

func (g *zzSharedGateFactory) Create(address string) (types.Backend, error) {
	<-g.gate
	m := zzmodel.Replicas[address]
	if m != nil && m.State != "closed" && zzNondetBool("second-create-finds-replica-closed-again") {
		m.State = "closed" // the replica was closed / restarted inside the window
	}
	return g.zzFactory.Create(address)
}

// C10 / C07 (a write arriving while a rebuilt replica is being verified and promoted):
// the promotion equalises the revision counters; a write that comes in while the
// verification is talking to the replicas is either counted by both replicas or served
// after the promotion - when both are done the two RW replicas hold the same count.
func ZZ_C10_WriteDuringVerify() {
	rf := 3
	e := zzNewEnv(rf)
	c := e.c
	e.n = 3
	e.zzAttach(0, types.RW)
	e.zzAttach(1, types.RW)
	e.zzAttach(2, types.WO)
	e.fe.state = types.StateUp
	c.RWReplicaCount, c.ReadOnly = 2, false
	zzmodel.NoFaults = true
	e.f.noFail = true
	src, other, tgt := zzmodel.Replicas[zzAddrs[0]], zzmodel.Replicas[zzAddrs[1]], zzmodel.Replicas[zzAddrs[2]]
	chain := []string{"volume-head-001.img", "volume-snap-a.img"}
	src.Chain, other.Chain, tgt.Chain = chain, chain, chain
	src.RevCounter = zzNondetInt64("rev.source")
	other.RevCounter = src.RevCounter
	tgt.RevCounter = zzNondetInt64("rev.target")
	zzAssume(zzAnd(src.RevCounter >= 1, zzAnd(src.RevCounter < 1<<40, zzAnd(tgt.RevCounter >= 0, tgt.RevCounter < 1<<40))))
	src.Mode, other.Mode, tgt.Mode = "RW", "RW", "WO"
	gate := make(chan struct{})
	wdone := make(chan bool, 1)
	opened := false
	at := zzConcretize(zzChoice("write-arrives-at-replica-call", 6))
	calls := 0
	go func() {
		<-gate
		buf := make([]byte, 8)
		zzmodel.OpSeq = 7
		c.WriteAt(buf, 0)
		wdone <- true
	}()
	zzmodel.OnCall = func() {
		if !opened && calls == at {
			opened = true
			close(gate)
			zzYield()
		}
		calls++
	}
	verr := c.VerifyRebuildReplica(zzAddrs[2])
	zzmodel.OnCall = nil
	if !opened {
		close(gate)
	}
	zzSettle()
	zzAssert(verr == nil, "C10.write-during-verify.promotion-refused")
	zzAssert(len(wdone) == 1, "C10.write-during-verify.write-never-served")
	if verr == nil && e.modeOf(zzAddrs[2]) == types.RW && e.modeOf(zzAddrs[0]) == types.RW && e.modeOf(zzAddrs[1]) == types.RW {
		zzReach("C10.write-during-verify.promoted")
		zzAssert(src.Counter() == tgt.Counter() && other.Counter() == tgt.Counter(), "C10.write-during-verify.RW-replicas-hold-different-revision-counts")
		zzAssert(len(src.Applied) == 1 && len(tgt.Applied) == 1, "C10.write-during-verify.write-not-applied-by-the-replicas")
	}
	zzReach("C10.write-during-verify.done")
}
