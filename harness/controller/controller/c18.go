package controller

import (
	"github.com/openebs/jiva/types"
	"github.com/openebs/jiva/zzmodel"
)

// C18 (the window between "marked ERR" and "reaped by its monitor goroutine"): a
// replica is marked ERR by an operator request or by a failed snapshot / resize call;
// its monitor goroutine has not run yet.  Every entry point that arrives in that window
// - in particular a fresh add request from the same address, whose process restarted -
// keeps the list, the modes and the replicator's backends in agreement, and once the
// monitor has run no trace of the failed attachment is left.
func ZZ_C18_ErrPending() {
	rf := zzParam("RF", 3)
	e := zzSymbolicEnv(rf)
	zzAssume(e.n > 0)
	c := e.c
	addr := zzAddrs[zzConcretize(zzChoice("victim", e.n))]
	switch zzConcretize(zzChoice("marked-by", 3)) {
	case 0:
		zzAssume(c.SetReplicaMode(addr, types.ERR) == nil)
	case 1:
		c.Snapshot("s1") // per-replica failures are symbolic
	default:
		c.Resize("vol", "2M")
	}
	zzAssume(e.modeOf(addr) == types.ERR) // marked, still listed
	e.zzCheckInvC("errpending.marked", false, false)
	zzmodel.FailTag = "2."
	seen := len(zzmodel.Replicas[addr].Applied) + len(zzmodel.Replicas[addr].Failed)
	fresh := zzAddrs[e.n]
	for i := 0; i <= rf && i < len(zzAddrs); i++ {
		zzmodel.Replicas[zzAddrs[i]].RevCounter = zzNondetInt64("rev." + zzHosts[i])
	}
	op := zzConcretize(zzChoice("op", 8))
	var err error
	switch op {
	case 0:
		// the failed replica's process restarted (state closed) and asks to be added again
		zzmodel.Replicas[addr].State = "closed"
		err = c.AddReplica(addr)
		zzReach("errpending.readd")
		if err == nil {
			zzReach("errpending.readd-accepted")
		}
	case 1:
		err = c.AddReplica(fresh)
	case 2:
		err = c.VerifyRebuildReplica(addr)
		zzAssert(err != nil, "C18.errpending.verify-of-ERR-replica-accepted")
	case 3:
		err = c.RemoveReplica(addr)
	case 4:
		err = c.SetReplicaMode(addr, types.RW)
		zzAssert(!e.attached(addr) || e.modeOf(addr) == types.ERR, "C18.errpending.ERR-replica-revived")
	case 5:
		// a write or a flush with every per-replica outcome symbolic: the majority rule and
		// the detachment of laggards hold with the ERR entry still listed
		W := e.zzWriters()
		zzmodel.OpSeq = 1
		if zzNondetBool("flush") {
			n, serr := c.Sync()
			err = serr
			e.zzCheckC02("C02.errpending.sync", W, 1, n == 0 && serr == nil, "S")
		} else {
			buf := make([]byte, 8)
			n, werr := c.WriteAt(buf, 0)
			err = werr
			e.zzCheckC02("C02.errpending.write", W, 1, n == len(buf) && werr == nil, "W")
		}
		zzAssert(len(zzmodel.Replicas[addr].Applied)+len(zzmodel.Replicas[addr].Failed) == seen, "C05.errpending.write-sent-to-ERR-replica")
	case 6:
		_, err = c.Snapshot("s2")
	default:
		err = c.RegisterReplica(types.RegReplica{Address: zzHostOf(addr), UUID: "uuid-x", RepState: "closed", RevCount: zzNondetInt64("regrev")})
	}
	_ = err
	e.zzCheckInvC("errpending.post", false, false)
	zzSettle()
	zzReach("errpending.settled")
	e.zzCheckInvC("errpending.settled", true, false)
	// what the list shows is what I/O goes to
	for _, r := range c.replicas {
		_, ok := c.backend.backends[r.Address]
		zzAssert(ok, "C18.errpending.listed-replica-without-backend")
	}
}
