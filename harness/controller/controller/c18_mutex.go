package controller

import (
	"github.com/openebs/jiva/types"
)

type zzMembership struct {
	replicas         []types.Replica
	backendModes     map[string]types.Mode
	writers, readers []string
	readOnly         bool
	rwCount          int
	checkpoint       string
}

func zzSnapMembership(c *Controller) zzMembership {
	m := zzMembership{backendModes: map[string]types.Mode{}, readOnly: c.ReadOnly, rwCount: c.RWReplicaCount, checkpoint: c.Checkpoint}
	m.replicas = append(m.replicas, c.replicas...)
	for a, b := range c.backend.backends {
		m.backendModes[a] = b.mode
	}
	m.writers = append(m.writers, zzWriterAddrs(c)...)
	m.readers = append(m.readers, zzReaderAddrs(c)...)
	return m
}

func zzSameMembership(a, b zzMembership) bool {
	if len(a.replicas) != len(b.replicas) || len(a.backendModes) != len(b.backendModes) || len(a.writers) != len(b.writers) || len(a.readers) != len(b.readers) {
		return false
	}
	for i := range a.replicas {
		if a.replicas[i] != b.replicas[i] {
			return false
		}
	}
	for k, v := range a.backendModes {
		if w, ok := b.backendModes[k]; !ok || w != v {
			return false
		}
	}
	for i := range a.writers {
		if a.writers[i] != b.writers[i] {
			return false
		}
	}
	for i := range a.readers {
		if a.readers[i] != b.readers[i] {
			return false
		}
	}
	return a.readOnly == b.readOnly && a.rwCount == b.rwCount && a.checkpoint == b.checkpoint
}

// C18 / C03 (membership is only ever changed under the controller lock): the replica
// list, the per-backend modes, the reader / writer sets, the read-only flag, the RW count
// and the checkpoint are shared by every request and every I/O; the lock is what keeps a
// mode change from interleaving with a removal that shifts the list.  While another
// request holds the controller's write lock, an entry point that changes membership
// changes nothing; once the lock is released it completes, and the bookkeeping is
// consistent.
func ZZ_C18_MutualExclusion() {
	rf := zzParam("RF", 3)
	e := zzSymbolicEnv(rf)
	c := e.c
	zzAssume(e.n >= 1)
	victim := zzAddrs[zzConcretize(zzChoice("victim", e.n))]
	ops := []string{"SetReplicaMode-ERR", "SetReplicaMode-RW", "SetReplicaMode-WO", "RemoveReplica", "AddReplica", "Snapshot", "Resize", "WriteAt", "VerifyRebuildReplica", "RegisterReplica"}
	op := zzConcretize(zzChoice("op", len(ops)))
	before := zzSnapMembership(c)
	c.Lock() // another request is being served
	done := make(chan bool, 1)
	go func() {
		switch op {
		case 0:
			c.SetReplicaMode(victim, types.ERR)
		case 1:
			c.SetReplicaMode(victim, types.RW)
		case 2:
			c.SetReplicaMode(victim, types.WO)
		case 3:
			c.RemoveReplica(victim)
		case 4:
			c.AddReplica(zzAddrs[rf])
		case 5:
			c.Snapshot("x")
		case 6:
			c.Resize("vol", "2M")
		case 7:
			buf := make([]byte, 8)
			c.WriteAt(buf, 0)
		case 8:
			c.VerifyRebuildReplica(victim)
		default:
			c.RegisterReplica(types.RegReplica{Address: zzHosts[rf], UUID: "u", RevCount: 3, RepType: "Backend", RepState: "closed"})
		}
		done <- true
	}()
	zzSettle()
	zzAssert(zzSameMembership(before, zzSnapMembership(c)), "C18.mutex."+ops[op]+".membership-changed-while-another-request-holds-the-lock")
	c.Unlock()
	zzSettle()
	zzAssert(len(done) == 1, "C18.mutex."+ops[op]+".never-completed-after-the-lock-was-released")
	e.zzCheckInvC("C18.mutex."+ops[op], true, false)
	zzReach("C18.mutex.done")
}
