package controller

import (
	"github.com/openebs/jiva/types"
	"github.com/openebs/jiva/zzmodel"
)

// C19 (i) — the controller makes a clone replica RW only after its clone status
// is reported completed (or NA: not a clone).

func ZZ_C19_CloneGate() {
	polls := zzParam("POLLS", 3)
	e := zzNewEnv(1)
	c := e.c
	m := zzmodel.Replicas[zzAddrs[0]]
	np := zzConcretize(zzChoice("polls", polls)) + 1
	var script []string
	for i := 0; i < np-1; i++ {
		// a replica reports "" / inProgress until it reaches a terminal status, which it keeps
		script = append(script, zzPick("status", "", "inProgress"))
	}
	script = append(script, zzPick("final", "completed", "NA", "error"))
	m.CloneScript = script
	c.RegisteredReplicas[zzHosts[0]] = types.RegReplica{Address: zzHosts[0], UUID: "u1"}
	c.MaxRevReplica = zzHosts[0]
	c.StartSignalled = true
	err := c.Start(zzAddrs[0])
	if m.ToldRW > 0 {
		zzReach("C19.toldRW")
		zzAssert(m.StatusAtRW == "completed" || m.StatusAtRW == "NA", "C19.clone-made-RW-before-status-completed")
	}
	if e.attached(zzAddrs[0]) && e.modeOf(zzAddrs[0]) == types.RW {
		zzReach("C19.serving")
		zzAssert(m.StatusAtRW == "completed" || m.StatusAtRW == "NA", "C19.clone-serving-before-status-completed")
		zzAssert(m.ToldRW > 0, "C19.clone-RW-in-controller-but-replica-not-told")
	}
	if m.LastCloneStatus == "error" {
		zzReach("C19.error")
		zzAssert(err != nil, "C19.failed-clone-not-reported-as-error")
		zzAssert(!e.attached(zzAddrs[0]), "C19.failed-clone-still-attached")
	}
	zzSettle()
	e.zzCheckInvC("C19.settled", true, err == nil)
}
