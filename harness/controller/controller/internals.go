package controller

// Accessors for the replicator's unexported index structures.  They live in a file of
// their own, with a fallback variant (internals.go.fallback), so that a change to the
// code under test that removes or renames one of these fields does not stop every
// controller harness from compiling: the fallback derives the same sets from the
// backends map, which leaves the behavioural assertions in force.

func zzInternalsKnown() bool { return true }

func zzReaderAddrs(c *Controller) []string {
	var out []string
	for _, a := range c.backend.readerIndex {
		out = append(out, a)
	}
	return out
}

func zzWriterAddrs(c *Controller) []string {
	var out []string
	for _, a := range c.backend.writerIndex {
		out = append(out, a)
	}
	return out
}

func zzNumReaders(c *Controller) int { return len(c.backend.readers) }

func zzNumWriters(c *Controller) int {
	if c.backend.writer == nil {
		return 0
	}
	return len(c.backend.writer.(*MultiWriterAt).writers)
}

func zzHasWriter(c *Controller) bool { return c.backend.writer != nil }
