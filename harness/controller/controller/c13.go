package controller

import (
	"github.com/openebs/jiva/types"
	"github.com/openebs/jiva/zzmodel"
)

// C13 — checkpoint agreement.

func ZZ_C13_UpdateCheckpoint() {
	rf := zzParam("RF", 3)
	maxChain := zzParam("CHAIN", 2)
	e := zzSymbolicEnv(rf)
	c := e.c
	for i := 0; i < e.n; i++ {
		m := zzmodel.Replicas[zzAddrs[i]]
		m.Chain = zzSymChain("chain."+zzHosts[i], "volume-head-000.img", maxChain)
		m.Checkpoint = zzPick("oldcp."+zzHosts[i], "", "volume-snap-a.img")
	}
	c.Checkpoint = zzPick("oldcp", "", "volume-snap-a.img")
	c.Lock()
	c.UpdateCheckpoint()
	c.Unlock()
	rw := e.countMode(types.RW)
	if c.Checkpoint != "" {
		zzReach("C13.checkpoint-set")
		zzAssert(rw == rf, "C13.checkpoint-recorded-without-all-RF-RW")
		zzAssert(len(c.replicas) == rf, "C13.checkpoint-recorded-without-all-RF-attached")
		for _, r := range c.replicas {
			m := zzmodel.Replicas[r.Address]
			zzAssert(len(m.Chain) > 1, "C13.checkpoint-with-replica-without-snapshot")
			if len(m.Chain) > 1 {
				zzAssert(m.Chain[1] == c.Checkpoint, "C13.checkpoint-differs-from-a-replicas-latest-snapshot")
			}
			zzAssert(m.Checkpoint == c.Checkpoint, "C13.replica-did-not-persist-the-checkpoint")
		}
	} else {
		zzReach("C13.checkpoint-empty")
	}
	if rw != rf {
		zzAssert(c.Checkpoint == "", "C13.checkpoint-kept-without-all-RF-RW")
	}
}
