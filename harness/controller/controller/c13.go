package controller

import (
	"github.com/openebs/jiva/types"
	"github.com/openebs/jiva/zzmodel"
)

// C13 — checkpoint agreement.

func ZZ_C13_UpdateCheckpoint() {
	rf := zzParam("RF", 3)
	maxChain := zzParam("CHAIN", 2)
	e := zzSymbolicEnv(rf)
	c := e.c
	for i := 0; i < e.n; i++ {
		m := zzmodel.Replicas[zzAddrs[i]]
		m.Chain = zzSymChain("chain."+zzHosts[i], "volume-head-000.img", maxChain)
		m.Checkpoint = zzPick("oldcp."+zzHosts[i], "", "volume-snap-a.img")
	}
	c.Checkpoint = zzPick("oldcp", "", "volume-snap-a.img")
	c.Lock()
	c.UpdateCheckpoint()
	c.Unlock()
	rw := e.countMode(types.RW)
	if c.Checkpoint != "" {
		zzReach("C13.checkpoint-set")
		zzAssert(rw == rf, "C13.checkpoint-recorded-without-all-RF-RW")
		zzAssert(len(c.replicas) == rf, "C13.checkpoint-recorded-without-all-RF-attached")
		for _, r := range c.replicas {
			m := zzmodel.Replicas[r.Address]
			zzAssert(len(m.Chain) > 1, "C13.checkpoint-with-replica-without-snapshot")
			if len(m.Chain) > 1 {
				zzAssert(m.Chain[1] == c.Checkpoint, "C13.checkpoint-differs-from-a-replicas-latest-snapshot")
			}
			zzAssert(m.Checkpoint == c.Checkpoint, "C13.replica-did-not-persist-the-checkpoint")
		}
	} else {
		zzReach("C13.checkpoint-empty")
	}
	if rw != rf {
		zzAssert(c.Checkpoint == "", "C13.checkpoint-kept-without-all-RF-RW")
	}
}

// C13 (a volume snapshot is refused unless all RF replicas are RW when it is taken): a
// replica fails - ping failure noticed by its monitor goroutine - while a snapshot
// request is inside a call to a replica (the duplicate-name lookup, the snapshot
// fan-out: network round trips, i.e. scheduling points).  Whatever the interleaving, a
// snapshot reported as taken exists on all RF replicas.
func ZZ_C13_SnapshotRace() {
	rf := zzParam("RF", 3)
	e := zzSymbolicEnv(rf)
	zzAssume(e.n == rf && e.countMode(types.RW) == rf)
	c := e.c
	victim := zzAddrs[zzConcretize(zzChoice("victim", rf))]
	at := zzConcretize(zzChoice("at-call", 4)) // which call into a replica the failure coincides with
	calls := 0
	zzmodel.OnCall = func() {
		if calls == at {
			e.f.remotes[victim].ZZInjectMonitorError(zzmodel.ErrIO)
			zzYield()
		}
		calls++
	}
	name, err := c.Snapshot("s1")
	zzmodel.OnCall = nil
	zzSettle()
	if err == nil {
		zzReach("C13.race.taken")
		for i := 0; i < rf; i++ {
			m := zzmodel.Replicas[zzAddrs[i]]
			has, asked := false, false
			for _, s := range m.Snapshots {
				if s == name {
					has = true
				}
			}
			for _, a := range m.Actions {
				if a == "snapshot" {
					asked = true
				}
			}
			// taken on all RF replicas: each of them was asked; one that failed its own
			// snapshot call is marked failed and detached (C05), the others hold it
			zzAssert(asked, "C13.race.snapshot-taken-without-asking-all-RF-replicas")
			zzAssert(has || !e.attached(zzAddrs[i]) || e.modeOf(zzAddrs[i]) == types.ERR, "C13.race.in-service-replica-without-the-snapshot")
		}
	} else {
		zzReach("C13.race.refused")
	}
	e.zzCheckInvC("C13.race.settled", true, false)
	zzReach("C13.race.done")
}

// C13 with a witness (quorum) replica attached: `POST /v1/quorumreplicas` attaches a
// replica that counts towards the write quorum but holds no data and takes no snapshots.
// The checkpoint speaks about the RF data replicas: it is kept only while all RF of them
// are RW, whatever the witness's mode, and it is withdrawn when a data replica leaves.
func ZZ_C13_CheckpointWithWitness() {
	rf := zzParam("RF", 3)
	e := zzSymbolicEnv(rf)
	zzAssume(e.n == rf && e.countMode(types.RW) == rf)
	c := e.c
	w := zzAddrs[rf] // the spare address of the pool becomes the witness
	zzmodel.NoFaults = true
	e.f.noFail = true
	zzAssume(c.AddQuorumReplica(w) == nil)
	if zzNondetBool("witness.rw") {
		zzAssume(c.SetReplicaMode(w, types.RW) == nil)
	}
	zzmodel.NoFaults = false
	zzmodel.FailTag = "2."
	victim := zzAddrs[zzConcretize(zzChoice("victim", rf))]
	switch zzConcretize(zzChoice("event", 4)) {
	case 0:
		c.RemoveReplica(victim)
	case 1:
		e.f.remotes[victim].ZZInjectMonitorError(zzmodel.ErrIO)
	case 2:
		buf := make([]byte, 8)
		c.WriteAt(buf, 0) // per-replica outcomes symbolic
	default:
		c.SetReplicaMode(victim, types.ERR)
	}
	zzSettle()
	dataRW := e.countMode(types.RW)
	zzAssert(zzImplies(c.Checkpoint != "", dataRW == rf), "C13.witness.checkpoint-kept-without-all-RF-data-replicas-RW")
	if dataRW < rf {
		zzReach("C13.witness.data-replica-left")
		// (not asserted: Controller.Snapshot trusts RWReplicaCount, which counts an RW witness;
		// a witness is RW only through the operator override PUT mode=RW, which is outside
		// every claim - A-override - like forcing a rebuilding data replica to RW)
	}
	zzReach("C13.witness.done")
}
