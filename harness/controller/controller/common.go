package controller

//zz:rt

import (
	"errors"

	"github.com/openebs/jiva/backend/remote"
	"github.com/openebs/jiva/types"
	"github.com/openebs/jiva/zzmodel"
)

// ---------------------------------------------------------------------------
// environment: factory, frontend

var zzAddrs = []string{"tcp://h1:9502", "tcp://h2:9502", "tcp://h3:9502", "tcp://h4:9502", "tcp://h5:9502", "tcp://h6:9502"}
var zzHosts = []string{"h1", "h2", "h3", "h4", "h5", "h6"}

type zzSignal struct {
	target, action string
	ok             bool
}

type zzFactory struct {
	onSignal func(target, action string)
	onProbe  func() // runs at the start of every liveness probe (a network round trip)
	remotes map[string]*remote.Remote
	signals []zzSignal
	creates []string
	noFail  bool
	dead    map[string]bool // hosts that are unreachable
}

func (f *zzFactory) Create(address string) (types.Backend, error) {
	address = zzConcStr(address)
	f.creates = append(f.creates, address)
	m := zzmodel.Replicas[address]
	if m == nil {
		return nil, errors.New("zz: unknown replica")
	}
	if m.Dead {
		return nil, errors.New("zz: replica unreachable")
	}
	if !f.noFail && zzNondetBool("create.fail."+address) {
		return nil, errors.New("zz: create failed")
	}
	// mirrors remote.Factory.Create: only a closed replica can be attached, then it is opened
	if m.State != "closed" {
		return nil, errors.New("zz: Replica must be closed")
	}
	m.State = "open"
	m.Detached = false
	r := remote.ZZNewRemote(address, m)
	f.remotes[address] = r
	return r, nil
}

func (f *zzFactory) SignalToAdd(target string, action string) error {
	target = zzConcStr(target)
	if f.onSignal != nil {
		f.onSignal(target, action)
	}
	ok := true
	if f.dead[target] {
		ok = false
	} else if !f.noFail && zzNondetBool("signal.fail."+target) {
		ok = false
	}
	f.signals = append(f.signals, zzSignal{target, action, ok})
	if !ok {
		return errors.New("zz: signal failed")
	}
	return nil
}

func (f *zzFactory) VerifyReplicaAlive(target string) bool {
	target = zzConcStr(target)
	if f.onProbe != nil {
		f.onProbe()
	}
	if f.dead[target] {
		return false
	}
	if f.noFail {
		return true
	}
	return !zzNondetBool("alive.fail." + target)
}

type zzFrontend struct {
	state     types.State
	startups  int
	shutdowns int
	resized   []uint64
	noFail    bool
}

func (f *zzFrontend) Startup(name string, frontendIP string, clusterIP string, size, sectorSize int64, rw types.IOs) error {
	f.startups++
	f.state = types.StateUp
	return nil
}
func (f *zzFrontend) Shutdown() error {
	f.shutdowns++
	f.state = types.StateDown
	return nil
}
func (f *zzFrontend) State() types.State { return f.state }
func (f *zzFrontend) Stats() types.Stats { return types.Stats{} }
func (f *zzFrontend) Resize(sz uint64) error {
	if !f.noFail && zzNondetBool("frontend.resize.fail") {
		return errors.New("zz: frontend resize failed")
	}
	f.resized = append(f.resized, sz)
	return nil
}

// ---------------------------------------------------------------------------
// controller construction

type zzEnv struct {
	c   *Controller
	f   *zzFactory
	fe  *zzFrontend
	rf  int
	n   int // replicas attached in the pre-state
	preRO bool // ReadOnly when the operation under check arrived
}

func zzCtlMode(c *Controller) func(string) string {
	return func(addr string) string {
		for _, r := range c.replicas {
			if r.Address == addr {
				return string(r.Mode)
			}
		}
		return ""
	}
}

// zzNewEnv: empty controller (the base case of the invariant).
func zzNewEnv(rf int) *zzEnv {
	zzmodel.Reset()
	zzmodel.EnvRF = rf
	f := &zzFactory{remotes: map[string]*remote.Remote{}, dead: map[string]bool{}}
	fe := &zzFrontend{state: types.StateDown}
	c := NewController(WithRF(rf), WithBackend(f), WithFrontend(fe, "127.0.0.1"), WithName("vol"), WithClusterIP("10.0.0.1"))
	c.size = 1 << 20
	c.sectorSize = 4096
	zzmodel.LockHeld = func() bool { return zzWriteLocked(&c.RWMutex) }
	zzmodel.CtlMode = zzCtlMode(c)
	for i := 0; i <= rf && i < len(zzAddrs); i++ {
		zzmodel.New(zzAddrs[i])
	}
	zzLastEnv = &zzEnv{c: c, f: f, fe: fe, rf: rf}
	return zzLastEnv
}

var zzLastEnv *zzEnv

// zzAttach attaches replica i in the given mode the way addReplicaNoLock +
// setReplicaModeNoLock leave it (quiescent), including the monitoring goroutine.
func (e *zzEnv) zzAttach(i int, mode types.Mode) {
	c := e.c
	addr := zzAddrs[i]
	m := zzmodel.Replicas[addr]
	m.State = "open"
	m.Mode = string(mode)
	r := remote.ZZNewRemote(addr, m)
	e.f.remotes[addr] = r
	c.replicas = append(c.replicas, types.Replica{Address: addr, Mode: types.WO})
	c.backend.AddBackend(addr, r)
	go c.monitoring(addr, r)
	if mode != types.WO {
		c.replicas[len(c.replicas)-1].Mode = mode
		c.backend.SetMode(addr, mode)
	}
}

// zzSymbolicEnv builds an arbitrary quiescent controller state satisfying Inv-C:
// n <= RF replicas, modes RW/WO with at most one WO, status fields consistent.
func zzSymbolicEnv(rf int) *zzEnv { return zzSymbolicEnvReg(rf, false) }

func zzSymbolicEnvReg(rf int, withReg bool) *zzEnv {
	e := zzNewEnv(rf)
	n := zzConcretize(zzChoice("n", rf+1))
	e.n = n
	wo := 0
	for i := 0; i < n; i++ {
		if zzNondetBool("pre.wo." + zzHosts[i]) {
			wo++
			e.zzAttach(i, types.WO)
		} else {
			e.zzAttach(i, types.RW)
		}
	}
	zzAssume(wo <= 1)
	if withReg {
		for i := 0; i < n; i++ {
			if zzNondetBool("pre.reg." + zzHosts[i]) {
				e.c.RegisteredReplicas[zzHosts[i]] = types.RegReplica{Address: zzHosts[i], UUID: "uuid-" + zzHosts[i], RepState: "closed"}
			}
		}
	}
	if n > 0 {
		e.fe.state = types.StateUp
	}
	// a healthy volume (all RF replicas RW) may hold a checkpoint that every replica persisted
	if n == rf && wo == 0 && zzNondetBool("pre.checkpoint") {
		for i := 0; i < n; i++ {
			m := zzmodel.Replicas[zzAddrs[i]]
			m.Chain = []string{"volume-head-001.img", "volume-snap-cp.img"}
			m.Checkpoint = "volume-snap-cp.img"
		}
		e.c.Checkpoint = "volume-snap-cp.img"
	}
	// quiescent status: what UpdateVolStatus computes; checked independently by zzCheckInvC
	rw := n - wo
	e.c.RWReplicaCount = rw
	e.c.ReadOnly = rw < rf/2+1
	return e
}

// ---------------------------------------------------------------------------
// oracle: Inv-C

func (e *zzEnv) countMode(mode types.Mode) int {
	k := 0
	for _, r := range e.c.replicas {
		if r.Mode == mode {
			k++
		}
	}
	return k
}

// zzCheckInvC asserts the membership invariant.  settled: background goroutines
// have drained (no ERR entries may remain); success: the last entry point returned
// success (status fields must be exact).
func (e *zzEnv) zzCheckInvC(tag string, settled bool, success bool) {
	c := e.c
	// (1) distinct addresses
	for i := range c.replicas {
		for j := i + 1; j < len(c.replicas); j++ {
			zzAssert(c.replicas[i].Address != c.replicas[j].Address, tag+".inv1.duplicate-address")
		}
	}
	// (2) backends == replicas, equal modes
	zzAssert(len(c.backend.backends) == len(c.replicas), tag+".inv2.backends-vs-replicas")
	for _, r := range c.replicas {
		b, ok := c.backend.backends[r.Address]
		zzAssert(ok, tag+".inv2.replica-without-backend")
		if ok {
			zzAssert(b.mode == r.Mode, tag+".inv2.mode-mismatch")
		}
	}
	// (3) reader / writer sets
	nonErr, rw, wo := 0, 0, 0
	for _, r := range c.replicas {
		if r.Mode != types.ERR {
			nonErr++
		}
		if r.Mode == types.RW {
			rw++
		}
		if r.Mode == types.WO {
			wo++
		}
	}
	if len(c.replicas) > 0 || zzHasWriter(c) {
		zzAssert(zzNumWriters(c) == nonErr, tag+".inv3.writers")
		zzAssert(zzNumReaders(c) == rw, tag+".inv3.readers")
		zzAssert(len(zzWriterAddrs(c)) == nonErr, tag+".inv3.writerIndex")
		zzAssert(len(zzReaderAddrs(c)) == rw, tag+".inv3.readerIndex")
		for _, addr := range zzWriterAddrs(c) {
			b, ok := c.backend.backends[addr]
			zzAssert(ok && b.mode != types.ERR, tag+".inv3.writerIndex-entry")
		}
		for _, addr := range zzReaderAddrs(c) {
			b, ok := c.backend.backends[addr]
			zzAssert(ok && b.mode == types.RW, tag+".inv3.readerIndex-entry")
		}
		zzAssert(c.backend.backendsAvailable == (rw > 0), tag+".inv3.backendsAvailable")
	}
	// (4) never more than RF data replicas
	zzAssert(len(c.replicas) <= c.ReplicationFactor, tag+".inv4.more-than-RF")
	// (5) at most one rebuilding replica
	zzAssert(wo <= 1, tag+".inv5.two-WO")
	// (6a) safety: not read-only only with a quorum of RW replicas
	if settled {
		zzAssert(zzImplies(!c.ReadOnly, rw >= c.ReplicationFactor/2+1), tag+".inv6a.writable-below-quorum")
	}
	if settled && success {
		zzAssert(c.ReadOnly == (rw < c.ReplicationFactor/2+1), tag+".inv6b.readonly-stale")
		zzAssert(c.RWReplicaCount == rw, tag+".inv6b.rwcount-stale")
	}
	// (8) a checkpoint is recorded only while all RF replicas are RW
	if settled {
		zzAssert(zzImplies(c.Checkpoint != "", rw == c.ReplicationFactor), tag+".inv8.checkpoint-without-all-RW")
	}
	// (7) no ERR entry survives settling; no call reaches a detached backend
	if settled {
		zzAssert(nonErr == len(c.replicas), tag+".inv7.err-entry-left")
	}
	zzAssert(!zzmodel.CallAfterDetach, tag+".inv7.call-after-detach")
	// from now on a replica that is neither listed nor has a backend must see no call
	for _, m := range zzmodel.Replicas {
		_, hasBackend := c.backend.backends[m.Addr]
		if !hasBackend && !e.attached(m.Addr) && m.State != "closed" {
			m.Detached = true
		}
	}
	zzAssert(!zzmodel.UnlockedCall, tag+".lock-discipline")
	zzAssert(zzLockDepth(&c.RWMutex) == 0, tag+".lock-leaked")
}

func (e *zzEnv) attached(addr string) bool {
	for _, r := range e.c.replicas {
		if r.Address == addr {
			return true
		}
	}
	return false
}

func (e *zzEnv) modeOf(addr string) types.Mode {
	for _, r := range e.c.replicas {
		if r.Address == addr {
			return r.Mode
		}
	}
	return ""
}
