package controller

import "github.com/openebs/jiva/zzmodel"

// C01 (controller part): I/O outside [0, size) is rejected and changes nothing.
// Offset, length and volume size are unconstrained 64-bit values.
func ZZ_C01_RangeCheck() {
	rf := zzParam("RF", 1)
	e := zzNewEnv(rf)
	for i := 0; i < rf; i++ {
		e.zzAttach(i, "RW")
	}
	c := e.c
	c.UpdateVolStatus()
	zzmodel.NoFaults = true
	size := zzNondetInt64("size")
	zzAssume(size >= 0)
	c.size = size
	off := zzNondetInt64("off")
	n := zzConcretize(zzChoice("len", 3)) * 4096
	buf := make([]byte, n)
	write := zzNondetBool("write")
	var err error
	var got int
	if write {
		got, err = c.WriteAt(buf, off)
	} else {
		got, err = c.ReadAt(buf, off)
	}
	// out of range in mathematical integers: off < 0 or off + n > size
	outside := zzOr(off < 0, zzAnd(off >= 0, size-off < int64(n)))
	touched := 0
	for _, m := range zzmodel.Replicas {
		touched += len(m.Applied) + len(m.Failed) + m.Reads
	}
	zzAssert(zzImplies(outside, err != nil), "C01.out-of-range-io-accepted")
	zzAssert(zzImplies(outside, touched == 0), "C01.out-of-range-io-reached-a-replica")
	// and everything inside the volume, up to its very last byte, is served
	zzAssert(zzImplies(zzNot(outside), err == nil), "C01.in-range-io-rejected")
	if err != nil {
		zzReach("C01.range.rejected")
	} else {
		zzReach("C01.range.accepted")
		zzAssert(got == n, "C01.in-range-io-short")
	}
}
