// Package zzmodel is the harness-side model of what a replica exposes to the
// controller (its REST API state and its data connection).  It exists only in the
// verification overlay.
package zzmodel

//zz:rt

import (
	"errors"
	"io"
	"strconv"
	"time"

	"github.com/openebs/jiva/types"
)

// Op is one data-path operation applied by a replica.
type Op struct {
	Kind string // "W", "S", "U"
	ID   int    // global sequence number of the controller-level operation
}

type Replica struct {
	Addr        string
	State       string // closed, open, dirty, rebuilding
	Mode        string // replica-side mode as set through the REST API
	Chain       []string
	Checkpoint  string
	RevCounter  int64
	Remain      int
	Size        int64
	SectorSize  int64
	CloneScript []string // successive answers of GetCloneStatus
	ClonePos    int
	Rebuilding  bool

	Detached    bool // the controller closed this backend
	Dead        bool // every call fails from now on (crashed / partitioned replica)
	Applied     []Op // data-path operations applied
	Failed      []Op // data-path operations answered with an error
	Reads       int  // ReadAt invocations
	ReadsOK     int  // ReadAt invocations answered completely, without error
	Snapshots   []string
	CallsAfterDetach int
	Actions     []string // management actions received, in order
	SnapAtOp    []int    // len(Applied) at the moment of each snapshot
	ResizeTo    []string
	RevSets     int
	LastCloneStatus string // last clone status this replica reported
	StatusAtRW      string // LastCloneStatus at the moment it was told to become RW
	ToldRW          int
	CountedWrites   int      // writes applied while the replica-side mode was RW (those count)
	CountedAtSet    int      // CountedWrites when the revision counter was last set
	RevertedTo      []string // snapshot disk names of the reverts this replica carried out
	FailedActions   []string // management actions this replica answered with an error
}

var (
	Replicas = map[string]*Replica{}
	EnvRF    int
	OpSeq    int
	// LockHeld is set by the controller harness: reports whether the controller's
	// write lock is held at this moment.
	LockHeld func() bool
	// ModeRW reports whether the controller currently lists addr as RW (set by the harness)
	CtlMode func(addr string) string
	ErrIO   = errors.New("zz: injected I/O error")
	ErrREST = errors.New("zz: injected REST failure")
	// violations observed inside stubs are recorded here and asserted by the harness
	ReadFromNonRW   bool
	UnlockedCall    bool
	CallAfterDetach bool
	FailTag         string // prefix for nondet tags, lets a harness distinguish phases
	NoFaults        bool   // when true no stub draws a failure
)

func Reset() {
	Replicas = map[string]*Replica{}
	OpSeq = 0
	ReadFromNonRW, UnlockedCall, CallAfterDetach = false, false, false
	FailTag = ""
	NoFaults = false
	OnCall, RWCount, DataOpBelowQuorum = nil, nil, false
}

func New(addr string) *Replica {
	r := &Replica{Addr: addr, State: "closed", Mode: "INIT", Chain: []string{"volume-head-000.img"}, Remain: 100,
		Size: 1 << 20, SectorSize: 4096, CloneScript: []string{"NA"}}
	Replicas[addr] = r
	return r
}

// Sleep replaces time.Sleep in the controller: while the controller sleeps (between two
// polls of a clone's status) every replica's clone status moves to its next value.
func Sleep(d time.Duration) {
	for _, m := range Replicas {
		if m.ClonePos < len(m.CloneScript)-1 {
			m.ClonePos++
		}
	}
}

// CheckReplicationFactor replaces util.CheckReplicationFactor (assumption A-env-RF).
func CheckReplicationFactor() int { return EnvRF }

// OnCall, when set, runs at the start of every call into a replica (the real calls are
// network round trips, i.e. scheduling points: a harness lets other goroutines run there);
// RWCount/DataOpBelowQuorum: a mutating data operation that reaches a replica while the
// controller lists fewer than a quorum of RW replicas.
var (
	OnCall            func()
	RWCount           func() int
	DataOpBelowQuorum bool
)

func noteData() {
	if RWCount != nil && RWCount() < EnvRF/2+1 {
		DataOpBelowQuorum = true
	}
}

func (m *Replica) noteCall(stateChanging bool) {
	if OnCall != nil {
		OnCall()
	}
	if m.Detached {
		m.CallsAfterDetach++
		CallAfterDetach = true
	}
	if stateChanging && LockHeld != nil && !LockHeld() {
		UnlockedCall = true
	}
}

// fail draws whether this call fails.
func (m *Replica) fail(what string) bool {
	if m.Dead {
		return true
	}
	if NoFaults {
		return false
	}
	return zzNondetBool(FailTag + what + "." + m.Addr)
}

// ---- data path (types.IOs) ----

type IOs struct{ M *Replica }

// zzAnswerLate: in the native replay a replica that answers an operation successfully
// answers after the ones that fail it (a failing replica typically answers at once, a
// healthy one after its disk write) - the order in which the engine ran the goroutines of
// the counterexample is thereby the order the replay sees.
func zzAnswerLate() {
	if !zzSymbolic() {
		time.Sleep(15 * time.Millisecond)
	}
}

func (s *IOs) WriteAt(p []byte, off int64) (int, error) {
	m := s.M
	m.noteCall(true)
	noteData()
	id := OpSeq
	if m.Dead {
		m.Failed = append(m.Failed, Op{"W", id})
		return 0, ErrIO
	}
	if NoFaults {
		m.Applied = append(m.Applied, Op{"W", id})
		if m.Mode == "RW" {
			m.CountedWrites++
		}
		return len(p), nil
	}
	// three outcomes: ok / error without effect / applied but error
	o := zzChoice(FailTag+"w.outcome."+m.Addr, 3)
	if o == 0 {
		zzAnswerLate()
		m.Applied = append(m.Applied, Op{"W", id})
		if m.Mode == "RW" {
			m.CountedWrites++
		}
		return len(p), nil
	}
	if o == 2 {
		m.Applied = append(m.Applied, Op{"W", id})
	}
	m.Failed = append(m.Failed, Op{"W", id})
	return 0, ErrIO
}

func (s *IOs) ReadAt(p []byte, off int64) (int, error) {
	m := s.M
	m.noteCall(false)
	m.Reads++
	if CtlMode != nil && CtlMode(m.Addr) != "RW" {
		ReadFromNonRW = true
	}
	if m.fail("r.fail") {
		// a failed read is an error without data, or a short read reported with io.EOF
		// (what the rpc client returns for a TypeEOF reply: partial data, short count)
		if !m.Dead && len(p) > 1 && zzNondetBool(FailTag+"r.short-eof."+m.Addr) {
			p[0] = m.Addr[len(m.Addr)-6]
			return len(p) / 2, io.EOF
		}
		return 0, ErrIO
	}
	// tag the buffer with the identity of the replica that served it
	if len(p) > 0 {
		p[0] = m.Addr[len(m.Addr)-6] // the digit in "tcp://hN:9502"
	}
	m.ReadsOK++
	return len(p), nil
}

func (s *IOs) Sync() (int, error) {
	m := s.M
	m.noteCall(true)
	noteData()
	id := OpSeq
	if m.fail("s.fail") {
		m.Failed = append(m.Failed, Op{"S", id})
		return -1, ErrIO
	}
	zzAnswerLate()
	m.Applied = append(m.Applied, Op{"S", id})
	return 0, nil
}

func (s *IOs) Unmap(off int64, length int64) (int, error) {
	m := s.M
	m.noteCall(true)
	noteData()
	id := OpSeq
	if m.fail("u.fail") {
		m.Failed = append(m.Failed, Op{"U", id})
		return -1, ErrIO
	}
	zzAnswerLate()
	m.Applied = append(m.Applied, Op{"U", id})
	return 0, nil
}

func (s *IOs) Close() error { return nil }

// Counter: the revision count the replica holds now: what it was set to (or started
// with) plus the writes it has counted since.
func (m *Replica) Counter() int64 { return m.RevCounter + int64(m.CountedWrites-m.CountedAtSet) }

// HasApplied reports whether the replica applied operation id.
func (m *Replica) HasApplied(id int) bool {
	for _, o := range m.Applied {
		if o.ID == id {
			return true
		}
	}
	return false
}

func (m *Replica) HasFailed(id int) bool {
	for _, o := range m.Failed {
		if o.ID == id {
			return true
		}
	}
	return false
}

// ---- management API (what doAction / info reach) ----

func str(v interface{}) string {
	if s, ok := v.(string); ok {
		return s
	}
	return ""
}

// Action applies a replica REST action; called by the redirected (*remote.Remote).doAction
// with the very object the real code would have JSON-encoded.
func (m *Replica) Action(action string, obj interface{}) error {
	// "delete" (DELETE /v1/delete fan-out of the volume deletion) and "setlogging" are sent
	// by REST handlers that by design run outside the controller lock; neither touches
	// volume data or membership
	m.noteCall(action != "open" && action != "delete" && action != "setlogging")
	m.Actions = append(m.Actions, action)
	if m.fail("a." + action) {
		m.FailedActions = append(m.FailedActions, action)
		return ErrREST
	}
	if action != "open" && len(m.Chain) == 0 {
		// a replica that reports no chain has no open volume (s.r == nil): every
		// management action on it is refused
		return errors.New("zz: replica has no open volume")
	}
	switch action {
	case "open":
		if m.State != "closed" {
			return errors.New("zz: replica not closed")
		}
		m.State = "open"
	case "snapshot":
		in := *(obj.(*map[string]interface{}))
		name := "volume-snap-" + str(in["name"]) + ".img"
		nc := []string{m.Chain[0], name}
		nc = append(nc, m.Chain[1:]...)
		m.Chain = nc
		m.Snapshots = append(m.Snapshots, str(in["name"]))
		m.SnapAtOp = append(m.SnapAtOp, len(m.Applied))
		m.Remain--
	case "revert":
		if n, ok := obj.(*string); ok {
			// the replica reverts to a snapshot disk of its chain and refuses anything else
			at := -1
			for i := 1; i < len(m.Chain); i++ {
				if m.Chain[i] == *n {
					at = i
				}
			}
			if at < 0 {
				m.FailedActions = append(m.FailedActions, "revert-refused")
				return errors.New("zz: cannot revert to a disk that is not a snapshot of the chain")
			}
			m.RevertedTo = append(m.RevertedTo, *n)
			nc := []string{"volume-head-r" + strconv.Itoa(len(m.RevertedTo)) + ".img"}
			m.Chain = append(nc, m.Chain[at:]...)
		}
	case "resize":
		in := *(obj.(*map[string]interface{}))
		m.ResizeTo = append(m.ResizeTo, str(in["size"]))
	case "setrebuilding":
		in := *(obj.(*map[string]bool))
		m.Rebuilding = in["rebuilding"]
		if m.Rebuilding {
			m.State = "rebuilding"
		} else {
			m.State = "dirty"
		}
	case "setreplicamode":
		in := *(obj.(*map[string]string))
		m.Mode = in["mode"]
		if m.Mode == "RW" {
			m.ToldRW++
			m.StatusAtRW = m.LastCloneStatus
		}
	case "setcheckpoint":
		in := *(obj.(*map[string]string))
		m.Checkpoint = in["snapshotName"]
	case "setrevisioncounter":
		in := *(obj.(*map[string]string))
		v, err := strconv.ParseInt(in["counter"], 10, 64)
		if err != nil {
			return err
		}
		m.RevCounter = v
		m.CountedAtSet = m.CountedWrites
		m.RevSets++
	}
	return nil
}

// Info is what GET /v1/replicas/1 reports.
func (m *Replica) Info() (types.ReplicaInfo, error) {
	m.noteCall(false)
	if m.fail("info") {
		return types.ReplicaInfo{}, ErrREST
	}
	return m.InfoNoFail(), nil
}

func (m *Replica) InfoNoFail() types.ReplicaInfo {
	var ri types.ReplicaInfo
	ri.State = m.State
	// built element by element, as encoding/json grows a decoded slice (capacities 1,2,4,8 ...)
	for _, s := range m.Chain {
		ri.Chain = append(ri.Chain, s)
	}
	ri.Checkpoint = m.Checkpoint
	ri.RevisionCounter = zzDecStr(m.RevCounter)
	ri.RemainSnapshots = m.Remain
	ri.Size = strconv.FormatInt(m.Size, 10)
	ri.SectorSize = m.SectorSize
	ri.ReplicaMode = m.Mode
	ri.Rebuilding = m.Rebuilding
	// the clone status moves on with time (Sleep below), not with the number of queries:
	// Size, SectorSize and the status poll all read the same description
	if m.ClonePos < len(m.CloneScript) {
		ri.CloneStatus = m.CloneScript[m.ClonePos]
		m.LastCloneStatus = ri.CloneStatus
	}
	if len(m.Chain) > 0 {
		ri.Head = m.Chain[0]
	}
	if len(m.Chain) > 1 {
		ri.Parent = m.Chain[1]
	}
	return ri
}
