package remote

//zz:rt

import (
	"errors"
	"net"
	"time"

	"github.com/openebs/jiva/rpc"
	"github.com/openebs/jiva/zzmodel"
)

var zzDials int
var zzDialOK bool

type zzNetConn struct{ net.Conn }

func zzDial(network, address string) (net.Conn, error) {
	zzDials++
	if zzDialOK {
		return &zzNetConn{}, nil
	}
	return nil, errors.New("zz: connection refused")
}

// the rpc client of a freshly attached replica, reduced to what Factory.Create and
// monitorPing use: Ping answers as scripted; a transport error / failed ping makes the
// client notify closeChan once (rpc.Client.handleResponse does: c.closeChan <- struct{}{})
var (
	zzClientCloseChan chan struct{}
	zzPingErr         error
	zzTicker          chan time.Time
)

func zzNewRPCClient(conn net.Conn, closeChan chan struct{}) *rpc.Client {
	zzClientCloseChan = closeChan
	return &rpc.Client{}
}
func zzClientPing(c *rpc.Client) error { return zzPingErr }
func zzClientSetError(c *rpc.Client, err error) {
	if zzClientCloseChan != nil {
		zzClientCloseChan <- struct{}{}
	}
}
func zzClientClose(c *rpc.Client) error { return nil }
func zzNewTicker(d time.Duration) *time.Ticker {
	zzTicker = make(chan time.Time, 1)
	return &time.Ticker{C: zzTicker}
}

// C05 (a replica whose failure is noticed by the ping monitor is detached without
// wedging the controller): the real Factory.Create builds the backend and starts the
// real monitorPing; a ping fails (the monitor reports it and ends), the rpc client
// reports the broken connection, and the controller - under its lock - marks the replica
// failed (SetMode(ERR): StopMonitoring) and removes it (RemoveBackend: Close, which stops
// monitoring again).  None of these notifications may block: nobody reads them any more.
func ZZ_C05_PingFailureDetach() {
	zzmodel.Reset()
	addr := "tcp://h1:9502"
	m := zzmodel.New(addr)
	m.State = "closed"
	zzmodel.NoFaults = true
	zzDials, zzDialOK = 0, true
	zzPingErr = nil
	b, err := (&Factory{}).Create(addr)
	zzDialOK = false
	zzAssert(err == nil && b != nil, "C05.ping.attach-failed")
	if b == nil {
		return
	}
	zzSettle()
	rpcAlso := zzNondetBool("rpc-client-reports-the-broken-connection-too")
	zzPingErr = errors.New("zz: ping timeout")
	zzTicker <- time.Time{}
	zzSettle()
	mc := b.GetMonitorChannel()
	zzAssert(len(mc) == 1, "C05.ping.failed-ping-not-reported-on-the-monitor-channel")
	if len(mc) == 1 {
		<-mc
	}
	if rpcAlso && zzClientCloseChan != nil {
		select {
		case zzClientCloseChan <- struct{}{}:
		default:
			zzAssert(false, "C05.ping.rpc-client-notification-would-block")
		}
	}
	// what Controller.monitoring does next, holding the controller lock
	b.StopMonitoring() // setReplicaModeNoLock(ERR) -> replicator.SetMode -> StopMonitoring
	b.Close()          // RemoveReplicaNoLock -> RemoveBackend -> Close -> StopMonitoring
	zzReach("C05.ping.detached")
}

// C05 (the other order of notice): the controller detaches a replica whose connection is
// still healthy - it answered an I/O with an error, it was removed, a rebuild took its
// place - and only afterwards does the rpc client see the connection go (the replica
// exits).  The client's notification (rpc.Client.handleResponse: c.closeChan <- ...) arrives
// at a backend that has been closed; it must neither block for ever nor bring the
// controller process down.
func ZZ_C05_DetachThenConnectionLoss() {
	zzmodel.Reset()
	addr := "tcp://h1:9502"
	m := zzmodel.New(addr)
	m.State = "closed"
	zzmodel.NoFaults = true
	zzDials, zzDialOK = 0, true
	zzPingErr = nil
	b, err := (&Factory{}).Create(addr)
	zzDialOK = false
	zzAssert(err == nil && b != nil, "C05.detach-first.attach-failed")
	if b == nil {
		return
	}
	zzSettle()
	if zzNondetBool("marked-failed-before-removal") {
		b.StopMonitoring() // setReplicaModeNoLock(ERR) -> replicator.SetMode -> StopMonitoring
	}
	b.Close() // RemoveBackend -> Close -> StopMonitoring
	zzSettle()
	mc := b.GetMonitorChannel()
	zzAssert(len(mc) == 1, "C05.detach-first.monitor-did-not-report-its-clean-stop")
	// later the connection drops: once for the failed read loop, possibly again for a
	// request that was in flight
	n := 1 + zzConcretize(zzChoice("notifications", 2))
	done := make(chan bool, 1)
	go func() {
		for i := 0; i < n; i++ {
			zzClientCloseChan <- struct{}{}
		}
		done <- true
	}()
	zzSettle()
	zzAssert(len(done) == 1, "C05.detach-first.rpc-client-blocked-for-ever-notifying-a-detached-backend")
	zzReach("C05.detach-first.done")
}

// C17: a replica can be attached only while it is closed (so never twice).
func ZZ_C17_FactoryCreate() {
	zzmodel.Reset()
	addr := "tcp://h1:9502"
	m := zzmodel.New(addr)
	m.State = zzConcStr(zzPick("state", "closed", "open", "dirty", "rebuilding", "error", ""))
	zzDials = 0
	b, err := (&Factory{}).Create(addr)
	if m.State != "closed" {
		zzReach("C17.attach-refused")
		zzAssert(err != nil && b == nil, "C17.replica-attached-while-not-closed")
		zzAssert(zzDials == 0, "C17.data-connection-opened-to-replica-that-is-not-closed")
		for _, a := range m.Actions {
			zzAssert(a != "open", "C17.open-sent-to-replica-that-is-not-closed")
		}
	} else {
		zzReach("C17.attach-closed")
		zzAssert(zzOr(zzDials == 1, err != nil), "C17.closed-replica-not-dialled")
	}
}
