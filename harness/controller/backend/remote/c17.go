package remote

//zz:rt

import (
	"errors"
	"net"

	"github.com/openebs/jiva/zzmodel"
)

var zzDials int

func zzDial(network, address string) (net.Conn, error) {
	zzDials++
	return nil, errors.New("zz: connection refused")
}

// C17: a replica can be attached only while it is closed (so never twice).
func ZZ_C17_FactoryCreate() {
	zzmodel.Reset()
	addr := "tcp://h1:9502"
	m := zzmodel.New(addr)
	m.State = zzConcStr(zzPick("state", "closed", "open", "dirty", "rebuilding", "error", ""))
	zzDials = 0
	b, err := (&Factory{}).Create(addr)
	if m.State != "closed" {
		zzReach("C17.attach-refused")
		zzAssert(err != nil && b == nil, "C17.replica-attached-while-not-closed")
		zzAssert(zzDials == 0, "C17.data-connection-opened-to-replica-that-is-not-closed")
		for _, a := range m.Actions {
			zzAssert(a != "open", "C17.open-sent-to-replica-that-is-not-closed")
		}
	} else {
		zzReach("C17.attach-closed")
		zzAssert(zzOr(zzDials == 1, err != nil), "C17.closed-replica-not-dialled")
	}
}
