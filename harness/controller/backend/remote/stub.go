package remote

import (
	"time"

	"github.com/openebs/jiva/replica/rest"
	"github.com/openebs/jiva/rpc"
	"github.com/openebs/jiva/types"
	"github.com/openebs/jiva/zzmodel"
)

// ZZNewRemote builds a genuine *Remote whose transport is the zzmodel replica.
// The real monitorPing goroutine is started, as Factory.Create does.
func ZZNewRemote(addr string, m *zzmodel.Replica) *Remote {
	r := &Remote{
		IOs:         &zzmodel.IOs{M: m},
		Name:        addr,
		closeChan:   make(chan struct{}, 5),
		monitorChan: make(types.MonitorChannel, 5),
	}
	// the ping ticker never fires (ping failures are injected explicitly); natively
	// the interval is pushed out of reach for the same effect
	pingInveral = 1000 * time.Hour
	go r.monitorPing((*rpc.Client)(nil))
	return r
}

// ZZInjectMonitorError models a failed ping: monitorPing sends the error on the
// monitor channel and returns.
func (r *Remote) ZZInjectMonitorError(err error) { r.monitorChan <- err }

// ZZInjectConnectionClosed models the rpc client reporting a broken data connection
// on closeChan: monitorPing then delivers nil on the monitor channel (a clean stop).
func (r *Remote) ZZInjectConnectionClosed() { r.closeChan <- struct{}{} }

// redirect targets ---------------------------------------------------------

func zzDoAction(r *Remote, action string, obj interface{}) error {
	m := zzmodel.Replicas[r.Name]
	if m == nil {
		return zzmodel.ErrREST
	}
	return m.Action(action, obj)
}

func zzInfo(r *Remote) (rest.Replica, error) {
	var rep rest.Replica
	m := zzmodel.Replicas[r.Name]
	if m == nil {
		return rep, zzmodel.ErrREST
	}
	ri, err := m.Info()
	if err != nil {
		return rep, err
	}
	rep.ReplicaInfo = ri
	return rep, nil
}

func zzGetVolUsage(r *Remote) (types.VolUsage, error) {
	var vu types.VolUsage
	m := zzmodel.Replicas[r.Name]
	if m == nil {
		return vu, zzmodel.ErrREST
	}
	ri, err := m.Info()
	if err != nil {
		return vu, err
	}
	vu.RevisionCounter = m.RevCounter
	vu.SectorSize = ri.SectorSize
	return vu, nil
}
