package client

import (
	"github.com/openebs/jiva/replica/rest"
	"github.com/openebs/jiva/util"
	"github.com/openebs/jiva/zzmodel"
)

// redirect targets for the replica REST client: the same zzmodel replica answers.

func zzNewReplicaClient(address string) (*ReplicaClient, error) {
	return &ReplicaClient{address: address, host: address}, nil
}

func zzGetReplica(c *ReplicaClient) (rest.Replica, error) {
	var rep rest.Replica
	m := zzmodel.Replicas[c.address]
	if m == nil {
		return rep, zzmodel.ErrREST
	}
	ri, err := m.Info()
	if err != nil {
		return rep, err
	}
	rep.ReplicaInfo = ri
	return rep, nil
}

func zzRevert(c *ReplicaClient, name, created string) error {
	m := zzmodel.Replicas[c.address]
	if m == nil {
		return zzmodel.ErrREST
	}
	return m.Action("revert", &name)
}

func zzPrepareRemoveDisk(c *ReplicaClient, disk string) (rest.PrepareRemoveDiskOutput, error) {
	var out rest.PrepareRemoveDiskOutput
	m := zzmodel.Replicas[c.address]
	if m == nil {
		return out, zzmodel.ErrREST
	}
	return out, m.Action("prepareremovedisk", nil)
}

func zzDelete(c *ReplicaClient, path string) error {
	m := zzmodel.Replicas[c.address]
	if m == nil {
		return zzmodel.ErrREST
	}
	return m.Action("delete", nil)
}

func zzSetLogging(c *ReplicaClient, lf util.LogToFile) error {
	m := zzmodel.Replicas[c.address]
	if m == nil {
		return zzmodel.ErrREST
	}
	return m.Action("setlogging", nil)
}

// any other REST call of the replica client: a management action on the model
func zzPost(c *ReplicaClient, path string, req, resp interface{}) error {
	m := zzmodel.Replicas[c.address]
	if m == nil {
		return zzmodel.ErrREST
	}
	return m.Action("post", nil)
}

func zzGet(c *ReplicaClient, url string, obj interface{}) error {
	m := zzmodel.Replicas[c.address]
	if m == nil {
		return zzmodel.ErrREST
	}
	return m.Action("get", nil)
}
