package client

import (
	"github.com/openebs/jiva/replica/rest"
	"github.com/openebs/jiva/zzmodel"
)

// redirect targets for the replica REST client: the same zzmodel replica answers.

func zzNewReplicaClient(address string) (*ReplicaClient, error) {
	return &ReplicaClient{address: address, host: address}, nil
}

func zzGetReplica(c *ReplicaClient) (rest.Replica, error) {
	var rep rest.Replica
	m := zzmodel.Replicas[c.address]
	if m == nil {
		return rep, zzmodel.ErrREST
	}
	ri, err := m.Info()
	if err != nil {
		return rep, err
	}
	rep.ReplicaInfo = ri
	return rep, nil
}

func zzRevert(c *ReplicaClient, name, created string) error {
	m := zzmodel.Replicas[c.address]
	if m == nil {
		return zzmodel.ErrREST
	}
	return m.Action("revert", nil)
}

func zzPrepareRemoveDisk(c *ReplicaClient, disk string) (rest.PrepareRemoveDiskOutput, error) {
	var out rest.PrepareRemoveDiskOutput
	m := zzmodel.Replicas[c.address]
	if m == nil {
		return out, zzmodel.ErrREST
	}
	return out, m.Action("prepareremovedisk", nil)
}
