package client

//zz:rt

import (
	"errors"

	"github.com/openebs/jiva/sync/agent"
)

// E-sync-agent: the process table of a replica's sync agent as its REST client sees it.
// A launched process (ssync sender, sfold, hardlink) runs for some polls and then ends
// with a final exit code that every later poll reports.  One poll may in addition read a
// transient 0: sync/agent.CreateProcess publishes a new entry before it sets ExitCode to
// -2, and entry ids restart from 1 when the agent restarts - the situation the PR101
// re-check in SendFile exists for.  A request may fail in transport.

var (
	zzRunFor    int  // polls during which the process is still running
	zzFinal     int  // its final exit code
	zzGlitchAt  int  // index of the poll that reads a transient 0 (-1: none)
	zzPolls     int  // polls served so far
	zzPostFails bool // the launch request fails
	zzGetFailAt int  // index of the poll that fails in transport (-1: none)
	zzLaunched  []agent.Process
)

func zzAgentReset(glitches bool) {
	zzRunFor = zzConcretize(zzChoice("agent.runs-for", 3))
	zzFinal = zzConcretize(zzChoice("agent.final-exit-code", 3)) // 0, 1, 2
	zzGlitchAt = -1
	if glitches && zzNondetBool("agent.transient-zero") {
		zzGlitchAt = zzConcretize(zzChoice("agent.transient-zero.at", 4))
	}
	zzGetFailAt = -1
	if zzNondetBool("agent.poll-fails") {
		zzGetFailAt = zzConcretize(zzChoice("agent.poll-fails.at", 4))
	}
	zzPostFails = zzNondetBool("agent.launch-fails")
	zzPolls = 0
	zzLaunched = nil
}

func zzAgentPost(c *ReplicaClient, path string, req, resp interface{}) error {
	if zzPostFails {
		return errors.New("zz: launch request failed")
	}
	p := *(req.(*agent.Process))
	zzLaunched = append(zzLaunched, p)
	out := resp.(*agent.Process)
	*out = p
	out.Id = "1"
	out.Port = 9700
	out.ExitCode = -2
	out.Links = map[string]string{"self": "http://agent/v1/processes/1"}
	return nil
}

func zzAgentGet(c *ReplicaClient, url string, obj interface{}) error {
	n := zzPolls
	zzPolls++
	zzAssert(zzPolls <= 12, "sync-agent-client.polls-forever")
	if n == zzGetFailAt {
		return errors.New("zz: poll failed")
	}
	out := obj.(*agent.Process)
	zzAssert(url == "http://agent/v1/processes/1", "sync-agent-client.polls-a-different-process")
	switch {
	case n == zzGlitchAt:
		out.ExitCode = 0
	case n < zzRunFor:
		out.ExitCode = -2
	default:
		out.ExitCode = zzFinal
	}
	return nil
}

func zzClient() *ReplicaClient {
	return &ReplicaClient{address: "http://src:9502/v1", syncAgent: "http://src:9504/v1", host: "src"}
}

// C19 / C07 (the copy step): SendFile reports success only for a sender that really
// ended with exit code 0; a sender that failed, or whose fate is unknown because a
// request failed, is reported as an error - so CloneReplica / the rebuild never goes on
// (UpdateCloneInfo, "completed", promotion) over a partial copy.
func ZZ_C19_SendFile() {
	zzAgentReset(true)
	c := zzClient()
	err := c.SendFile("volume-snap-s1.img", "dst", 9700)
	if zzPostFails {
		zzAssert(err != nil, "C19.sendfile.launch-failure-swallowed")
		zzAssert(zzPolls == 0, "C19.sendfile.polls-after-failed-launch")
		return
	}
	zzAssert(len(zzLaunched) == 1 && zzLaunched[0].ProcessType == "sync" && zzLaunched[0].SrcFile == "volume-snap-s1.img" &&
		zzLaunched[0].Host == "dst" && zzLaunched[0].Port == 9700, "C19.sendfile.wrong-launch-request")
	if err == nil {
		zzReach("C19.sendfile.ok")
		zzAssert(zzFinal == 0, "C19.sendfile.partial-copy-reported-as-success")
	} else {
		zzReach("C19.sendfile.failed")
		zzAssert(zzFinal != 0 || zzGetFailAt >= 0, "C19.sendfile.finished-copy-reported-as-failure")
	}
}

// C11 (the merge step of a snapshot deletion) and hard links: Coalesce / HardLink report
// success only when the sfold / hardlink process ended with exit code 0.
func ZZ_C11_FileOperation() {
	zzAgentReset(false)
	c := zzClient()
	var err error
	kind := "fold"
	if zzNondetBool("hardlink") {
		kind = "hardlink"
		err = c.HardLink("volume-snap-a.img", "volume-snap-b.img")
	} else {
		err = c.Coalesce("volume-snap-a.img", "volume-snap-b.img")
	}
	if zzPostFails {
		zzAssert(err != nil, "C11.fileop.launch-failure-swallowed")
		return
	}
	zzAssert(len(zzLaunched) == 1 && zzLaunched[0].ProcessType == kind && zzLaunched[0].SrcFile == "volume-snap-a.img" &&
		zzLaunched[0].DestFile == "volume-snap-b.img", "C11.fileop.wrong-launch-request")
	if err == nil {
		zzReach("C11.fileop.ok")
		zzAssert(zzFinal == 0, "C11.fileop.failed-merge-reported-as-success")
	} else {
		zzReach("C11.fileop.failed")
		zzAssert(zzFinal != 0 || zzGetFailAt >= 0, "C11.fileop.finished-merge-reported-as-failure")
	}
}

// the receiver side of a copy: LaunchReceiver hands back the port the agent allotted
func ZZ_C07_LaunchReceiver() {
	zzAgentReset(false)
	c := zzClient()
	host, port, err := c.LaunchReceiver("volume-snap-s1.img")
	if zzPostFails {
		zzAssert(err != nil, "C07.receiver.launch-failure-swallowed")
		return
	}
	zzAssert(err == nil && host == "src" && port == 9700, "C07.receiver.wrong-endpoint")
	zzAssert(len(zzLaunched) == 1 && zzLaunched[0].ProcessType == "sync" && zzLaunched[0].DestFile == "volume-snap-s1.img" &&
		zzLaunched[0].SrcFile == "", "C07.receiver.wrong-launch-request")
	zzReach("C07.receiver.ok")
}

// C14 (addresses reach NewReplicaClient straight from request bodies: POST /v1/replicas
// during a rebuild goes canAdd -> hasGreaterRevisionCount -> NewReplicaClient with the
// controller lock taken by hand): whatever the address looks like, NewReplicaClient
// returns a client or an error; it never panics.
func ZZ_C14_NewReplicaClient() {
	addr := zzPick("address", "tcp://h1:9502", "h1:9502", "http://h1:9502/v1", "tcp://h1", "h1", "", "tcp://", "tcp://h1:", "tcp://h1:port",
		"tcp://[::1]:9502", "tcp://h1:9502:9503", ":9502", "tcp://:9502", "http://h1:9502")
	c, err := NewReplicaClient(zzConcStr(addr))
	if err == nil {
		zzReach("C14.client.accepted")
		zzAssert(c != nil, "C14.client.nil-without-error")
		if c != nil {
			zzAssert(c.address != "" && c.syncAgent != "", "C14.client.accepted-with-empty-endpoints")
		}
	} else {
		zzReach("C14.client.refused")
	}
	zzReach("C14.client.done")
}
