package client

//zz:rt

import (
	"bytes"
	"encoding/json"
	"errors"
	"io"
	"net/http"

	"github.com/openebs/jiva/controller/rest"
	"github.com/openebs/jiva/util"
)

// E-http-client for the controller REST client the replica-side code uses (register,
// start, add, prepare / verify rebuild, checkpoint lookup, snapshot deletion).  Contract
// checked: a call reports success only if every request it made went through (no
// transport error, status below 300 for POST/PUT/DELETE, body decoded), and it sends the
// right verb to the right link with the payload it was given.

type zzBody struct{}

func (zzBody) Read(p []byte) (int, error) { return 0, io.EOF }
func (zzBody) Close() error               { return nil }

type zzSent struct {
	method, url string
	payload     interface{}
}

var (
	zzGetFails, zzDecodeFails bool
	zzDoOutcome               int // 0 transport error, 1 = 200, 2 = 500, 3 = 404, 4 = 204
	zzRequests                []zzSent
	zzGets                    []string
	zzLastMarshal             interface{}
	zzPending                 *zzSent
	zzCheckpoint              string
	zzNoVolume                bool
)

const zzCtl = "http://ctl:9501/v1"

func zzHTTPGet(url string) (*http.Response, error) {
	zzGets = append(zzGets, url)
	if zzGetFails {
		return nil, errors.New("zz: connection refused")
	}
	return &http.Response{StatusCode: 200, Status: "200 OK", Body: zzBody{}}, nil
}

func zzNewRequest(method, url string, body io.Reader) (*http.Request, error) {
	zzPending = &zzSent{method: method, url: url, payload: zzLastMarshal}
	return &http.Request{Method: method, Header: http.Header{}}, nil
}
func zzHeaderSet(h http.Header, k, v string) {}

func zzHTTPDo(c *http.Client, req *http.Request) (*http.Response, error) {
	if zzPending != nil {
		zzRequests = append(zzRequests, *zzPending)
	}
	switch zzDoOutcome {
	case 0:
		return nil, errors.New("zz: connection refused")
	case 1:
		return &http.Response{StatusCode: 200, Status: "200 OK", Body: zzBody{}}, nil
	case 2:
		return &http.Response{StatusCode: 500, Status: "500 Internal Server Error", Body: zzBody{}}, nil
	case 3:
		return &http.Response{StatusCode: 404, Status: "404 Not Found", Body: zzBody{}}, nil
	}
	return &http.Response{StatusCode: 204, Status: "204 No Content", Body: zzBody{}}, nil
}

func zzMarshal(v interface{}) ([]byte, error) { zzLastMarshal = v; return []byte("{}"), nil }
func zzNewBuffer(b []byte) *bytes.Buffer      { return &bytes.Buffer{} }
func zzNewDecoder(r io.Reader) *json.Decoder  { return &json.Decoder{} }
func zzReadAll(r io.Reader) ([]byte, error)   { return nil, nil }

func zzDecode(d *json.Decoder, v interface{}) error {
	if zzDecodeFails {
		return errors.New("zz: unexpected end of JSON input")
	}
	switch out := v.(type) {
	case *rest.VolumeCollection:
		if !zzNoVolume {
			vol := rest.Volume{Name: "vol", ReplicaCount: 2}
			vol.Actions = map[string]string{"start": zzCtl + "/volumes/dm9s?action=start", "deleteSnapshot": zzCtl + "/volumes/dm9s?action=deleteSnapshot",
				"snapshot": zzCtl + "/volumes/dm9s?action=snapshot", "revert": zzCtl + "/volumes/dm9s?action=revert",
				"setlogging": zzCtl + "/volumes/dm9s?action=setlogging"}
			out.Data = []rest.Volume{vol}
		}
	case **rest.Replica:
		rep := &rest.Replica{Address: "tcp://h1:9502", Mode: "WO"}
		rep.Actions = map[string]string{"verifyrebuild": zzCtl + "/replicas/x?action=verifyrebuild", "preparerebuild": zzCtl + "/replicas/x?action=preparerebuild"}
		*out = rep
	case *rest.ReplicaCollection:
		r1 := rest.Replica{Address: "tcp://h1:9502", Mode: "RW"}
		r1.Links = map[string]string{"self": zzCtl + "/replicas/aDE="}
		r2 := rest.Replica{Address: "tcp://h2:9502", Mode: "WO"}
		r2.Links = map[string]string{"self": zzCtl + "/replicas/aDI="}
		out.Data = []rest.Replica{r1, r2}
	case *rest.SnapshotOutput:
		out.Id = "snap-id-1"
	case *rest.Checkpoint:
		out.Snapshot = zzCheckpoint
	}
	return nil
}

func ZZ_Env_ControllerClient() {
	zzRequests, zzGets, zzPending = nil, nil, nil
	zzGetFails = zzNondetBool("get.fails")
	zzDecodeFails = zzNondetBool("decode.fails")
	zzDoOutcome = zzConcretize(zzChoice("do.outcome", 5))
	zzNoVolume = zzNondetBool("no.volume")
	zzCheckpoint = zzConcStr(zzPick("checkpoint", "", "volume-snap-a.img"))
	c := &ControllerClient{controller: zzCtl}
	doOK := zzDoOutcome == 1 || zzDoOutcome == 4
	getOK := !zzGetFails && !zzDecodeFails
	call := zzConcretize(zzChoice("call", 17))
	switch call {
	case 0:
		err := c.Register("h1", "uuid-1", zzNondetInt64("rev"), "Backend", 0, "closed")
		zzAssert((err == nil) == doOK, "env.cclient.register-error-status-wrong")
		zzAssert(len(zzRequests) == 1 && zzRequests[0].method == "POST" && zzRequests[0].url == zzCtl+"/register", "env.cclient.register-not-posted")
	case 1:
		err := c.Start("tcp://h1:9502")
		ok := getOK && !zzNoVolume && doOK
		zzAssert((err == nil) == ok, "env.cclient.start-error-status-wrong")
		if getOK && !zzNoVolume {
			zzAssert(len(zzRequests) == 1 && zzRequests[0].url == zzCtl+"/volumes/dm9s?action=start", "env.cclient.start-not-posted-to-the-start-action")
			in, isIn := zzRequests[0].payload.(rest.StartInput)
			zzAssert(isIn && len(in.Replicas) == 1 && in.Replicas[0] == "tcp://h1:9502", "env.cclient.start-sent-other-replicas")
		} else {
			zzAssert(len(zzRequests) == 0, "env.cclient.start-posted-without-a-volume")
		}
	case 2:
		_, err := c.CreateReplica("tcp://h3:9502")
		zzAssert((err == nil) == (doOK && !zzDecodeFails), "env.cclient.create-error-status-wrong")
		zzAssert(len(zzRequests) == 1 && zzRequests[0].method == "POST" && zzRequests[0].url == zzCtl+"/replicas", "env.cclient.create-not-posted")
	case 3:
		err := c.VerifyRebuildReplica("x")
		zzAssert((err == nil) == (getOK && doOK), "env.cclient.verify-error-status-wrong")
		if getOK {
			zzAssert(len(zzRequests) == 1 && zzRequests[0].url == zzCtl+"/replicas/x?action=verifyrebuild", "env.cclient.verify-not-posted-to-the-verify-action")
		} else {
			zzAssert(len(zzRequests) == 0, "env.cclient.verify-posted-after-failed-lookup")
		}
	case 4:
		_, err := c.PrepareRebuild("x")
		zzAssert((err == nil) == (getOK && doOK), "env.cclient.prepare-error-status-wrong")
		if getOK {
			zzAssert(len(zzRequests) == 1 && zzRequests[0].url == zzCtl+"/replicas/x?action=preparerebuild", "env.cclient.prepare-not-posted-to-the-prepare-action")
		}
	case 5:
		cp, err := c.GetCheckpoint()
		zzAssert((err == nil) == (getOK && zzCheckpoint != ""), "env.cclient.checkpoint-error-status-wrong")
		if err == nil {
			zzAssert(cp == zzCheckpoint, "env.cclient.checkpoint-returns-other-value")
		}
	case 6:
		reps, err := c.ListReplicas()
		zzAssert((err == nil) == getOK, "env.cclient.list-error-status-wrong")
		if err == nil {
			zzAssert(len(reps) == 2 && reps[0].Mode == "RW", "env.cclient.list-returns-other-data")
		}
	case 7:
		err := c.DeleteSnapshot("s1")
		ok := getOK && !zzNoVolume && doOK
		zzAssert((err == nil) == ok, "env.cclient.deletesnapshot-error-status-wrong")
		if getOK && !zzNoVolume {
			zzAssert(len(zzRequests) == 1 && zzRequests[0].method == "DELETE" && zzRequests[0].url == zzCtl+"/volumes/dm9s?action=deleteSnapshot", "env.cclient.deletesnapshot-wrong-request")
		}
	case 8:
		_, err := c.RevertVolume("s1")
		ok := getOK && !zzNoVolume && doOK
		zzAssert((err == nil) == ok, "env.cclient.revertvolume-error-status-wrong")
		if getOK && !zzNoVolume {
			in, isIn := zzRequests[0].payload.(*rest.RevertInput)
			zzAssert(len(zzRequests) == 1 && zzRequests[0].method == "POST" && zzRequests[0].url == zzCtl+"/volumes/dm9s?action=revert" && isIn && in.Name == "s1", "env.cclient.revertvolume-wrong-request")
		}
	case 9:
		err := c.RevertSnapshot("s1")
		ok := getOK && !zzNoVolume && doOK
		zzAssert((err == nil) == ok, "env.cclient.revertsnapshot-error-status-wrong")
		if getOK && !zzNoVolume {
			in, isIn := zzRequests[0].payload.(rest.RevertInput)
			zzAssert(len(zzRequests) == 1 && zzRequests[0].method == "POST" && zzRequests[0].url == zzCtl+"/volumes/dm9s?action=revert" && isIn && in.Name == "s1", "env.cclient.revertsnapshot-wrong-request")
		} else {
			zzAssert(len(zzRequests) == 0, "env.cclient.revertsnapshot-posted-without-a-volume")
		}
	case 10:
		id, err := c.Snapshot("s1")
		ok := getOK && !zzNoVolume && doOK
		zzAssert((err == nil) == ok, "env.cclient.snapshot-error-status-wrong")
		if err == nil {
			zzAssert(id == "snap-id-1", "env.cclient.snapshot-returns-other-id")
		} else {
			zzAssert(id == "", "env.cclient.failed-snapshot-returns-an-id")
		}
		if getOK && !zzNoVolume {
			in, isIn := zzRequests[0].payload.(*rest.SnapshotInput)
			zzAssert(len(zzRequests) == 1 && zzRequests[0].method == "POST" && zzRequests[0].url == zzCtl+"/volumes/dm9s?action=snapshot" && isIn && in.Name == "s1", "env.cclient.snapshot-wrong-request")
		}
	case 11:
		_, err := c.CreateQuorumReplica("tcp://h4:9502")
		zzAssert((err == nil) == (doOK && !zzDecodeFails), "env.cclient.createquorum-error-status-wrong")
		in, isIn := zzRequests[0].payload.(*rest.Replica)
		zzAssert(len(zzRequests) == 1 && zzRequests[0].method == "POST" && zzRequests[0].url == zzCtl+"/quorumreplicas" && isIn && in.Address == "tcp://h4:9502", "env.cclient.createquorum-wrong-request")
	case 12:
		rep, err := c.DeleteReplica("tcp://h2:9502")
		zzAssert((err == nil) == (getOK && doOK), "env.cclient.deletereplica-error-status-wrong")
		if getOK {
			zzAssert(len(zzRequests) == 1 && zzRequests[0].method == "DELETE" && zzRequests[0].url == zzCtl+"/replicas/aDI=", "env.cclient.deletereplica-wrong-request")
		} else {
			zzAssert(len(zzRequests) == 0, "env.cclient.deletereplica-sent-after-failed-listing")
		}
		if err == nil {
			zzAssert(rep != nil && rep.Address == "tcp://h2:9502", "env.cclient.deletereplica-returns-another-replica")
		}
	case 13:
		rep, err := c.DeleteReplica("tcp://h9:9502") // not a member: nothing is deleted
		zzAssert(len(zzRequests) == 0, "env.cclient.deletereplica-of-a-stranger-sent-a-request")
		zzAssert(rep == nil && (err == nil) == getOK, "env.cclient.deletereplica-of-a-stranger-wrong-result")
	case 14:
		in := rest.Replica{Address: "tcp://h2:9502", Mode: "ERR"}
		in.Links = map[string]string{"self": zzCtl + "/replicas/aDI="}
		_, err := c.UpdateReplica(in)
		zzAssert((err == nil) == (doOK && !zzDecodeFails), "env.cclient.updatereplica-error-status-wrong")
		sent, isIn := zzRequests[0].payload.(*rest.Replica)
		zzAssert(len(zzRequests) == 1 && zzRequests[0].method == "PUT" && zzRequests[0].url == zzCtl+"/replicas/aDI=" && isIn && sent.Mode == "ERR" && sent.Address == "tcp://h2:9502", "env.cclient.updatereplica-wrong-request")
	case 15:
		err := c.SetLogging(util.LogToFile{Enable: true})
		ok := getOK && !zzNoVolume && doOK
		zzAssert((err == nil) == ok, "env.cclient.setlogging-error-status-wrong")
		if getOK && !zzNoVolume {
			zzAssert(len(zzRequests) == 1 && zzRequests[0].url == zzCtl+"/volumes/dm9s?action=setlogging", "env.cclient.setlogging-wrong-request")
		}
	default:
		v, err := c.GetVolume()
		zzAssert((err == nil) == (getOK && !zzNoVolume), "env.cclient.getvolume-error-status-wrong")
		if err == nil {
			zzAssert(v != nil && v.ReplicaCount == 2, "env.cclient.getvolume-returns-other-data")
		}
	}
	zzReach("env.cclient.done")
}
