package rpc

//zz:rt

import (
	"errors"
	"io"
	"net"
	"time"
)

// E-wire: the TCP connection is a pair of byte pipes built on Go channels; reads
// block until bytes arrive, a closed pipe yields io.EOF, a broken one an error.

type zzAddr struct{}

func (zzAddr) Network() string { return "zz" }
func (zzAddr) String() string  { return "zz:1" }

type zzPipe struct {
	ch     chan []byte
	buf    []byte
	broken bool
	sent   [][]byte // every chunk written (for inspection)
	failWr bool     // writes fail (transport error on send)
}

func newPipe() *zzPipe { return &zzPipe{ch: make(chan []byte, 256)} }

type zzConn struct {
	in  *zzPipe // bytes this end reads
	out *zzPipe // bytes this end writes
}

func (c *zzConn) Read(p []byte) (int, error) {
	if len(c.in.buf) == 0 {
		b, ok := <-c.in.ch
		if !ok {
			if c.in.broken {
				return 0, errors.New("zz: connection reset")
			}
			return 0, io.EOF
		}
		c.in.buf = b
	}
	n := copy(p, c.in.buf)
	c.in.buf = c.in.buf[n:]
	return n, nil
}

func (c *zzConn) Write(p []byte) (int, error) {
	if c.out.failWr {
		return 0, errors.New("zz: broken pipe")
	}
	b := make([]byte, len(p))
	copy(b, p)
	c.out.sent = append(c.out.sent, b)
	c.out.ch <- b
	return len(p), nil
}

func (c *zzConn) Close() error                       { return nil }
func (c *zzConn) LocalAddr() net.Addr                { return zzAddr{} }
func (c *zzConn) RemoteAddr() net.Addr               { return zzAddr{} }
func (c *zzConn) SetDeadline(t time.Time) error      { return nil }
func (c *zzConn) SetReadDeadline(t time.Time) error  { return nil }
func (c *zzConn) SetWriteDeadline(t time.Time) error { return nil }

func zzConnPair() (*zzConn, *zzConn) {
	a, b := newPipe(), newPipe()
	return &zzConn{in: a, out: b}, &zzConn{in: b, out: a}
}

// the wire exactly as the code under test builds it (buffered reader and writer)
func zzWire(c *zzConn) *Wire { return NewWire(c) }

// zzClient: what NewClient builds, over a harness connection.
func zzClient(c *zzConn, closeChan chan struct{}) *Client {
	cl := &Client{
		wire:      zzWire(c),
		peerAddr:  "zz:1",
		end:       make(chan struct{}, 1024),
		requests:  make(chan *Message, 1024),
		send:      make(chan *Message, 1024),
		responses: make(chan *Message, 1024),
		messages:  map[uint32]*Message{},
		closeChan: closeChan,
	}
	go cl.loop()
	go cl.write()
	go cl.read()
	return cl
}

// stub replica data processor with symbolic results
type zzData struct {
	reads, writes, syncs, unmaps, pings int
	lastWrite                          []byte
	lastOff                            int64
	fill                               byte
}

func (d *zzData) ReadAt(p []byte, off int64) (int, error) {
	d.reads++
	if zzNondetBool("data.read.fail") {
		return 0, errors.New("zz: read failed")
	}
	for i := range p {
		p[i] = d.fill + byte(i)
	}
	return len(p), nil
}
func (d *zzData) WriteAt(p []byte, off int64) (int, error) {
	d.writes++
	if zzNondetBool("data.write.fail") {
		return 0, errors.New("zz: write failed")
	}
	d.lastWrite = append([]byte{}, p...)
	d.lastOff = off
	return len(p), nil
}
func (d *zzData) Sync() (int, error) {
	d.syncs++
	if zzNondetBool("data.sync.fail") {
		return -1, errors.New("zz: sync failed")
	}
	return 0, nil
}
func (d *zzData) Unmap(off, l int64) (int, error) {
	d.unmaps++
	if zzNondetBool("data.unmap.fail") {
		return -1, errors.New("zz: unmap failed")
	}
	return 0, nil
}
func (d *zzData) Close() error        { return nil }
func (d *zzData) PingResponse() error { d.pings++; return nil }
