package rpc

import "time"

// symbolic timers: time.After is redirected here; a deadline expires only when the
// harness says so.
var zzTimers []chan time.Time

func zzAfter(d time.Duration) <-chan time.Time {
	ch := make(chan time.Time, 1)
	zzTimers = append(zzTimers, ch)
	return ch
}

// zzExpireDeadlines fires every pending deadline.
func zzExpireDeadlines() {
	for _, ch := range zzTimers {
		select {
		case ch <- time.Time{}:
		default:
		}
	}
	zzSettle()
}

func zzArmShortDeadlines() {}
