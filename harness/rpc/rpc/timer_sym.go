package rpc

import "time"

// symbolic timers: time.After is redirected here; a deadline expires only when the
// harness says so.
var zzTimers []chan time.Time

func zzAfter(d time.Duration) <-chan time.Time {
	ch := make(chan time.Time, 1)
	zzTimers = append(zzTimers, ch)
	return ch
}

// zzExpireDeadlines fires every pending deadline.
func zzExpireDeadlines() {
	for _, ch := range zzTimers {
		select {
		case ch <- time.Time{}:
		default:
		}
	}
	zzSettle()
}

func zzArmShortDeadlines() {}

func zzArmMixedDeadlines() {}

// zzExpireFirstDeadline fires only the deadline that was armed first.
func zzExpireFirstDeadline() {
	if len(zzTimers) > 0 {
		select {
		case zzTimers[0] <- time.Time{}:
		default:
		}
	}
	zzSettle()
}

// tickers (the server's ping watchdog): a harness-owned channel that fires only when told
var zzTickers []chan time.Time

func zzNewTicker(d time.Duration) *time.Ticker {
	ch := make(chan time.Time, 1)
	zzTickers = append(zzTickers, ch)
	return &time.Ticker{C: ch}
}
