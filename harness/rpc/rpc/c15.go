package rpc

import "io"

// C15 — data-path RPC.

// (i) codec round trip: every field symbolic, payload of symbolic length <= MAXDATA.
func ZZ_C15_Codec() {
	maxData := zzParam("MAXDATA", 4)
	a, b := zzConnPair()
	wa, wb := zzWire(a), zzWire(b)
	n := zzConcretize(zzChoice("len", maxData+1))
	msg := &Message{
		MagicVersion: MagicVersion,
		Seq:          zzNondetUint32("seq"),
		Type:         zzNondetUint32("type"),
		Offset:       zzNondetInt64("offset"),
		Size:         zzNondetInt64("size"),
	}
	if n > 0 || zzNondetBool("empty-not-nil") {
		msg.Data = make([]byte, n)
		for i := range msg.Data {
			msg.Data[i] = zzNondetByte("data")
		}
	}
	err := wa.Write(msg)
	zzAssert(err == nil, "C15.codec.write-error")
	got, err := wb.Read()
	zzAssert(err == nil && got != nil, "C15.codec.read-error")
	if got != nil {
		zzAssert(got.MagicVersion == MagicVersion, "C15.codec.magic")
		zzAssert(got.Seq == msg.Seq, "C15.codec.seq")
		zzAssert(got.Type == msg.Type, "C15.codec.type")
		zzAssert(got.Offset == msg.Offset, "C15.codec.offset")
		zzAssert(got.Size == msg.Size, "C15.codec.size")
		zzAssert(len(got.Data) == n, "C15.codec.data-length")
		for i := 0; i < n && i < len(got.Data); i++ {
			zzAssert(got.Data[i] == msg.Data[i], "C15.codec.data")
		}
	}
	zzReach("C15.codec.roundtrip")
}

// a frame cut at any byte, or with a wrong magic, yields an error, never a message
func ZZ_C15_CodecTruncated() {
	maxData := zzParam("MAXDATA", 4)
	a, b := zzConnPair()
	wa, wb := zzWire(a), zzWire(b)
	n := zzConcretize(zzChoice("len", maxData+1))
	msg := &Message{MagicVersion: MagicVersion, Seq: zzNondetUint32("seq"), Type: zzNondetUint32("type"),
		Offset: zzNondetInt64("offset"), Size: zzNondetInt64("size"), Data: make([]byte, n)}
	badMagic := zzNondetBool("badmagic")
	if badMagic {
		msg.MagicVersion = zzNondetUint16("magic")
		zzAssume(msg.MagicVersion != MagicVersion)
	}
	wa.Write(msg)
	total := 0
	for _, c := range a.out.sent {
		total += len(c)
	}
	zzAssert(total == 30+n, "C15.codec.frame-length")
	// re-send only a prefix of the frame on a fresh connection, then close it
	var frame []byte
	for _, c := range a.out.sent {
		frame = append(frame, c...)
	}
	cut := len(frame)
	if !badMagic {
		cut = zzConcretize(zzChoice("cut", len(frame)))
	}
	c2, d2 := zzConnPair()
	c2.Write(frame[:cut])
	close(c2.out.ch)
	got, err := zzWire(d2).Read()
	zzAssert(err != nil, "C15.codec.truncated-or-foreign-frame-accepted")
	if !badMagic {
		zzAssert(got == nil, "C15.codec.message-from-truncated-frame")
		zzReach("C15.codec.truncated")
	} else {
		zzReach("C15.codec.badmagic")
	}
	_ = wb
}

// (ii)+(iv) end to end: real Client (operation, loop, write, read) against the real
// Server (readWrite, handlers, createResponse) over the pipe, stub data processor.
func ZZ_C15_EndToEnd() {
	a, b := zzConnPair()
	closeChan := make(chan struct{}, 5)
	cl := zzClient(a, closeChan)
	data := &zzData{fill: zzNondetByte("fill")}
	srv := &Server{wire: zzWire(b), responses: make(chan *Message, 1024), done: make(chan struct{}, 5), data: data}
	ret := make(chan error, 1)
	go srv.readWrite(ret)
	op := zzConcretize(zzChoice("op", 5))
	n := zzConcretize(zzChoice("len", 3)) + 1
	buf := make([]byte, n)
	off := zzNondetInt64("off")
	if op == 0 {
		for i := range buf {
			buf[i] = zzNondetByte("payload")
		}
	}
	// the request runs in its own goroutine: whatever the replica answers - data, an
	// error, EOF - its reply must complete the request; only a stalled peer leaves a
	// request to its deadline
	var got int
	var err error
	done := make(chan bool, 1)
	go func() {
		switch op {
		case 0:
			got, err = cl.WriteAt(buf, off)
		case 1:
			got, err = cl.ReadAt(buf, off)
		case 2:
			_, err = cl.Sync()
		case 3:
			_, err = cl.Unmap(off, 4096)
		default:
			err = cl.Ping()
		}
		done <- true
	}()
	zzSettleMs(400)
	zzAssert(len(done) == 1, "C15.e2e.request-not-completed-by-the-replica's-reply")
	if len(done) != 1 {
		return
	}
	zzAssert(len(closeChan) == 0 && cl.err == nil, "C15.e2e.connection-declared-failed-although-the-replica-answered")
	// each request kind reaches exactly its own operation of the replica's data processor
	calls := []int{data.writes, data.reads, data.syncs, data.unmaps, data.pings}
	for k, cnt := range calls {
		want := 0
		if k == op {
			want = 1
		}
		zzAssert(cnt == want, "C15.e2e.request-delivered-to-another-operation-or-not-once")
	}
	switch op {
	case 0:
		if data.lastWrite != nil {
			zzReach("C15.e2e.write-ok")
			zzAssert(err == nil && got == n, "C15.e2e.write-result")
			zzAssert(data.lastOff == off && len(data.lastWrite) == n, "C15.e2e.write-arguments")
			for i := 0; i < n && i < len(data.lastWrite); i++ {
				zzAssert(data.lastWrite[i] == buf[i], "C15.e2e.write-payload")
			}
		} else {
			zzReach("C15.e2e.write-failed")
			zzAssert(err != nil, "C15.e2e.replica-write-error-not-reported")
		}
	case 1:
		if err == nil {
			zzReach("C15.e2e.read-ok")
			zzAssert(got == n, "C15.e2e.read-result")
			for i := 0; i < n; i++ {
				zzAssert(buf[i] == data.fill+byte(i), "C15.e2e.read-payload")
			}
		} else {
			zzReach("C15.e2e.read-failed")
		}
		zzAssert(data.reads == 1, "C15.e2e.read-not-delivered-once")
	case 2:
		zzAssert(data.syncs == 1, "C15.e2e.sync-not-delivered-once")
	case 3:
		zzAssert(data.unmaps == 1, "C15.e2e.unmap-not-delivered-once")
	default:
		zzAssert(err == nil && data.pings == 1, "C15.e2e.ping")
	}
	zzAssert(len(cl.messages) == 0, "C15.e2e.request-left-pending")
}

// (ii) matching: M concurrent requests, replies in any order, possibly for an
// unknown sequence number: each operation gets exactly the reply with its Seq.
func ZZ_C15_Matching() {
	m := zzParam("M", 2)
	a, b := zzConnPair()
	closeChan := make(chan struct{}, 5)
	cl := zzClient(a, closeChan)
	srvWire := zzWire(b)
	results := make([]int, m)
	errs := make([]error, m)
	bufs := make([][]byte, m)
	done := make(chan int, m)
	for i := 0; i < m; i++ {
		bufs[i] = make([]byte, 1)
		go func(k int) {
			results[k], errs[k] = cl.operation(TypeRead, bufs[k], int64(100+k), 1)
			done <- k
		}(i)
	}
	// the replica side: decode the m request frames
	reqs := make([]*Message, m)
	seqOfOffset := map[int64]uint32{}
	for i := 0; i < m; i++ {
		r, err := srvWire.Read()
		zzAssert(err == nil && r != nil, "C15.match.request-frame-lost")
		if r == nil {
			return
		}
		reqs[i] = r
		seqOfOffset[r.Offset] = r.Seq
	}
	for i := 0; i < m; i++ {
		for j := i + 1; j < m; j++ {
			zzAssert(reqs[i].Seq != reqs[j].Seq, "C15.match.duplicate-sequence-number")
		}
	}
	// optional stray reply with an unknown sequence number
	if zzNondetBool("stray") {
		srvWire.Write(&Message{MagicVersion: MagicVersion, Seq: 9999, Type: TypeResponse, Size: 777})
	}
	// reply in a symbolic order; Size carries the identity of the request answered
	order := make([]int, 0, m)
	left := make([]int, m)
	for i := range left {
		left[i] = i
	}
	for len(left) > 0 {
		k := zzConcretize(zzChoice("order", len(left)))
		order = append(order, left[k])
		left = append(left[:k], left[k+1:]...)
	}
	for _, i := range order {
		r := reqs[i]
		srvWire.Write(&Message{MagicVersion: MagicVersion, Seq: r.Seq, Type: TypeResponse, Size: r.Offset, Data: []byte{byte(r.Offset)}})
	}
	zzSettle()
	zzAssert(len(done) == m, "C15.match.request-not-completed-by-its-reply")
	if len(done) != m {
		return
	}
	for k := 0; k < m; k++ {
		zzAssert(errs[k] == nil, "C15.match.request-failed")
		zzAssert(results[k] == 100+k, "C15.match.reply-delivered-to-wrong-request")
		// the payload handed to the request is the one of its own reply
		zzAssert(bufs[k][0] == byte(100+k), "C15.match.payload-of-another-reply")
	}
	zzAssert(len(cl.messages) == 0, "C15.match.request-left-pending")
	zzReach("C15.match.done")
}

// (iii) failure: the connection breaks (or the peer closes) while M requests are in
// flight: every pending and every later request fails, the error is sticky, and the
// failure is reported on closeChan.
func ZZ_C15_Failure() {
	m := zzParam("M", 2)
	a, b := zzConnPair()
	closeChan := make(chan struct{}, 5)
	cl := zzClient(a, closeChan)
	srvWire := zzWire(b)
	errs := make([]error, m)
	done := make(chan int, m)
	for i := 0; i < m; i++ {
		go func(k int) {
			buf := make([]byte, 1)
			_, errs[k] = cl.operation(TypeWrite, buf, int64(k), 1)
			done <- k
		}(i)
	}
	zzSettle()
	answered := -1
	if zzNondetBool("answer-one-first") {
		r, _ := srvWire.Read()
		if r != nil {
			answered = int(r.Offset)
			srvWire.Write(&Message{MagicVersion: MagicVersion, Seq: r.Seq, Type: TypeResponse, Size: 1})
		}
	}
	// the transport fails: reset or orderly close by the peer
	if zzNondetBool("reset") {
		b.out.broken = true
	}
	close(b.out.ch)
	zzSettleMs(2500)
	zzAssert(len(done) == m, "C15.fail.request-hangs-after-transport-failure")
	if len(done) != m {
		return
	}
	for k := 0; k < m; k++ {
		if k != answered {
			zzAssert(errs[k] != nil, "C15.fail.pending-request-succeeded-after-transport-failure")
		}
	}
	zzAssert(cl.err != nil, "C15.fail.error-not-sticky")
	zzAssert(len(closeChan) >= 1, "C15.fail.failure-not-reported-on-closeChan")
	buf := make([]byte, 1)
	_, err := cl.operation(TypeRead, buf, 0, 1)
	zzAssert(err != nil, "C15.fail.later-request-succeeded")
	if err != nil && err != io.EOF {
		zzReach("C15.fail.later-request-failed")
	}
	zzAssert(len(cl.messages) == 0, "C15.fail.request-left-pending")
	zzReach("C15.fail.done")
}

// (iii) deadline: the replica never answers; when the deadline expires the request
// fails, the client is marked failed, the failure is reported on closeChan (which
// makes the controller detach the replica) and later requests fail at once.
func ZZ_C15_Deadline() {
	a, b := zzConnPair()
	_ = b
	closeChan := make(chan struct{}, 5)
	cl := zzClient(a, closeChan)
	zzArmShortDeadlines()
	op := uint32(zzConcretize(zzChoice("op", 4)))
	types := []uint32{TypeRead, TypeWrite, TypeSync, TypePing}
	var err1 error
	done := make(chan bool, 1)
	go func() {
		buf := make([]byte, 1)
		_, err1 = cl.operation(types[op], buf, 0, 1)
		done <- true
	}()
	zzSettle()
	zzAssert(len(done) == 0, "C15.deadline.request-completed-without-reply")
	zzExpireDeadlines()
	zzAssert(len(done) == 1, "C15.deadline.request-still-hanging-after-deadline")
	if len(done) == 1 {
		<-done
		zzAssert(err1 != nil, "C15.deadline.request-succeeded-without-reply")
		zzAssert(err1 == ErrRWTimeout || err1 == ErrPingTimeout, "C15.deadline.wrong-error")
	}
	zzAssert(cl.err != nil, "C15.deadline.client-not-marked-failed")
	zzAssert(len(closeChan) >= 1, "C15.deadline.failure-not-reported-on-closeChan")
	buf := make([]byte, 1)
	_, err2 := cl.operation(TypeRead, buf, 0, 1)
	zzAssert(err2 != nil, "C15.deadline.later-request-succeeded")
	zzReach("C15.deadline.done")
}

// (iii) corruption followed by a stall: the peer answers with a prefix of a frame that
// does not start with the protocol magic and then goes silent, leaving the connection
// open.  The stream is unusable from the first two bytes on, so every pending request
// fails without any further input, the error is sticky and reported on closeChan.
func ZZ_C15_CorruptStall() {
	m := zzParam("M", 2)
	a, b := zzConnPair()
	closeChan := make(chan struct{}, 5)
	cl := zzClient(a, closeChan)
	errs := make([]error, m)
	done := make(chan int, m)
	for i := 0; i < m; i++ {
		go func(k int) {
			buf := make([]byte, 1)
			_, errs[k] = cl.operation(TypeRead, buf, int64(k), 1)
			done <- k
		}(i)
	}
	zzSettle()
	magic := zzNondetUint16("magic")
	zzAssume(magic != MagicVersion)
	k := 2 + zzConcretize(zzChoice("prefix", 28)) // 2..29 bytes of a 30-byte header
	frame := make([]byte, k)
	frame[0], frame[1] = byte(magic), byte(magic>>8)
	for i := 2; i < k; i++ {
		frame[i] = zzNondetByte("garbage")
	}
	b.Write(frame)
	zzSettleMs(2500)
	zzAssert(len(done) == m, "C15.corrupt.request-hangs-after-foreign-bytes")
	if len(done) != m {
		return
	}
	for i := 0; i < m; i++ {
		zzAssert(errs[i] != nil, "C15.corrupt.pending-request-succeeded")
	}
	zzAssert(cl.err != nil, "C15.corrupt.error-not-sticky")
	zzAssert(len(closeChan) >= 1, "C15.corrupt.failure-not-reported-on-closeChan")
	buf := make([]byte, 1)
	_, err := cl.operation(TypeRead, buf, 0, 1)
	zzAssert(err != nil, "C15.corrupt.later-request-succeeded")
	zzReach("C15.corrupt.done")
}

// the replica side of the same: the real Server.readWrite gives up on a connection
// whose first bytes are not the protocol magic (a foreign client such as a metrics
// scraper) without waiting for more input, and serves nothing from it.
func ZZ_C15_ServerForeignClient() {
	a, b := zzConnPair()
	data := &zzData{}
	srv := &Server{wire: zzWire(b), responses: make(chan *Message, 1024), done: make(chan struct{}, 5), data: data}
	ret := make(chan error, 1)
	go srv.readWrite(ret)
	magic := zzNondetUint16("magic")
	zzAssume(magic != MagicVersion)
	k := 2 + zzConcretize(zzChoice("prefix", 28))
	frame := make([]byte, k)
	frame[0], frame[1] = byte(magic), byte(magic>>8)
	for i := 2; i < k; i++ {
		frame[i] = zzNondetByte("garbage")
	}
	a.Write(frame)
	zzSettleMs(1000)
	zzAssert(len(ret) == 1, "C15.server.foreign-client-not-rejected-at-once")
	zzAssert(data.reads+data.writes+data.syncs+data.unmaps+data.pings == 0, "C15.server.foreign-bytes-reached-the-replica")
	zzReach("C15.server.foreign.done")
}

// (iii) deadlines of different length (reads and writes 30 s, the monitor's ping 40 s;
// RPC_READ_TIMEOUT / RPC_WRITE_TIMEOUT may differ): the peer stalls, the request with
// the shortest deadline expires while another is still pending.  The expired request's
// entry is still in the pending table and nobody listens on it any more; the client must
// nevertheless fail the other request promptly, report the failure and empty the table.
func ZZ_C15_MixedDeadlines() {
	a, b := zzConnPair()
	_ = b
	closeChan := make(chan struct{}, 5)
	cl := zzClient(a, closeChan)
	zzArmMixedDeadlines()
	var errA, errB error
	doneA, doneB := make(chan bool, 1), make(chan bool, 1)
	go func() {
		buf := make([]byte, 1)
		_, errA = cl.operation(TypeRead, buf, 0, 1)
		doneA <- true
	}()
	zzSettle()
	other := []uint32{TypeWrite, TypeSync, TypePing}[zzConcretize(zzChoice("other", 3))]
	go func() {
		buf := make([]byte, 1)
		_, errB = cl.operation(other, buf, 1, 1)
		doneB <- true
	}()
	zzSettle()
	zzAssert(len(doneA) == 0 && len(doneB) == 0, "C15.mixed.request-completed-without-reply")
	zzExpireFirstDeadline()
	zzSettleMs(2500)
	zzAssert(len(doneA) == 1, "C15.mixed.expired-request-still-hanging")
	zzAssert(len(doneB) == 1, "C15.mixed.pending-request-not-failed-after-another-request-timed-out")
	if len(doneA) == 1 && len(doneB) == 1 {
		zzAssert(errA == ErrRWTimeout, "C15.mixed.wrong-error-for-expired-request")
		zzAssert(errB != nil, "C15.mixed.pending-request-succeeded-without-reply")
	}
	zzAssert(cl.err != nil, "C15.mixed.client-not-marked-failed")
	zzAssert(len(closeChan) >= 1, "C15.mixed.failure-not-reported-on-closeChan")
	zzAssert(len(cl.messages) == 0, "C15.mixed.request-left-pending")
	zzReach("C15.mixed.done")
}

// the replica side of a connection's life: the real Server.Handle (reader/writer goroutine
// plus ping watchdog) serves requests in order and returns - so that the replica process
// closes its volume and leaves - as soon as the controller's connection ends or turns to
// garbage; it does not return while the connection is healthy.
func ZZ_C15_ServerHandle() {
	a, b := zzConnPair()
	data := &zzData{fill: 7}
	srv := &Server{wire: zzWire(b), responses: make(chan *Message, 1024), done: make(chan struct{}, 5), data: data}
	var herr error
	ended := make(chan bool, 1)
	go func() {
		herr = srv.Handle()
		ended <- true
	}()
	peer := zzWire(a)
	n := zzConcretize(zzChoice("requests", 3))
	for i := 0; i < n; i++ {
		t := []uint32{TypeWrite, TypeRead, TypePing}[zzConcretize(zzChoice("type", 3))]
		req := &Message{MagicVersion: MagicVersion, Seq: uint32(10 + i), Type: t, Offset: int64(i), Size: 1}
		if t == TypeWrite {
			req.Data = []byte{byte(i)}
		}
		zzAssert(peer.Write(req) == nil, "C15.handle.request-not-sent")
		zzSettle()
		resp, rerr := peer.Read()
		zzAssert(rerr == nil && resp != nil, "C15.handle.request-not-answered")
		if resp != nil {
			zzAssert(resp.Seq == req.Seq, "C15.handle.reply-carries-another-sequence-number")
		}
	}
	zzSettle()
	zzAssert(len(ended) == 0, "C15.handle.server-gave-up-on-a-healthy-connection")
	switch zzConcretize(zzChoice("end", 3)) {
	case 0:
		close(a.out.ch) // the controller closes the connection
	case 1:
		a.out.broken = true
		close(a.out.ch) // connection reset
	default:
		a.Write([]byte{0xde, 0xad, 0xbe, 0xef, 1, 2, 3, 4, 5, 6, 7, 8, 9, 10, 11, 12, 13, 14, 15, 16, 17, 18, 19, 20, 21, 22, 23, 24, 25, 26}) // garbage
	}
	zzSettleMs(500)
	zzAssert(len(ended) == 1, "C15.handle.server-keeps-serving-a-dead-connection")
	if len(ended) == 1 {
		zzAssert(herr != nil, "C15.handle.connection-loss-not-reported-to-the-replica-process")
	}
	zzReach("C15.handle.done")
}

// zzFrame: the bytes of one request frame, as the real Wire.Write puts them on a connection.
func zzFrame(m *Message) []byte {
	a, _ := zzConnPair()
	w := zzWire(a)
	if w.Write(m) != nil {
		return nil
	}
	var out []byte
	for _, chunk := range a.out.sent {
		out = append(out, chunk...)
	}
	return out
}

// C15 (replies are not held back by what else is on the connection): TCP hands the
// replica whatever bytes have arrived - a complete request followed by the first bytes of
// the next one, or two complete requests at once.  The reply to a request the replica has
// served is sent without waiting for the rest of the next frame (a reply withheld runs the
// requester into its deadline, which fails the whole connection); once the rest arrives,
// the second request is answered too, in order.
func ZZ_C15_ServerCoalesced() {
	a, b := zzConnPair()
	data := &zzData{fill: 3}
	srv := &Server{wire: zzWire(b), responses: make(chan *Message, 1024), done: make(chan struct{}, 5), data: data}
	ended := make(chan bool, 1)
	go func() {
		srv.Handle()
		ended <- true
	}()
	kinds := []uint32{TypeRead, TypeWrite, TypePing}
	r1 := &Message{MagicVersion: MagicVersion, Seq: 7, Type: kinds[zzConcretize(zzChoice("first", 3))], Offset: 0, Size: 2}
	r2 := &Message{MagicVersion: MagicVersion, Seq: 8, Type: kinds[zzConcretize(zzChoice("second", 3))], Offset: 4096, Size: 2}
	for _, r := range []*Message{r1, r2} {
		if r.Type == TypeWrite {
			r.Data = []byte{1, 2}
		}
	}
	f1, f2 := zzFrame(r1), zzFrame(r2)
	zzAssume(len(f1) > 0 && len(f2) > 0)
	cut := zzConcretize(zzChoice("cut", 4)) // how much of the second frame arrives with the first
	k := []int{0, 1, len(f2) / 2, len(f2)}[cut]
	first := append(append([]byte{}, f1...), f2[:k]...)
	a.out.ch <- first
	zzSettle()
	peer := zzWire(a)
	zzAssert(len(a.in.ch) > 0 || len(a.in.buf) > 0, "C15.coalesced.reply-to-a-served-request-withheld-while-the-next-frame-is-incomplete")
	if len(a.in.ch) == 0 && len(a.in.buf) == 0 {
		return
	}
	resp1, err1 := peer.Read()
	zzAssert(err1 == nil && resp1 != nil && resp1.Seq == 7, "C15.coalesced.first-reply-wrong")
	if k < len(f2) {
		a.out.ch <- append([]byte{}, f2[k:]...)
		zzSettle()
	}
	got2 := make(chan *Message, 1)
	go func() {
		m, _ := peer.Read()
		got2 <- m
	}()
	zzSettle()
	zzAssert(len(got2) == 1, "C15.coalesced.second-request-never-answered")
	if len(got2) == 1 {
		resp2 := <-got2
		zzAssert(resp2 != nil && resp2.Seq == 8, "C15.coalesced.second-reply-wrong")
	}
	zzAssert(len(ended) == 0, "C15.coalesced.server-gave-up-on-a-healthy-connection")
	zzReach("C15.coalesced.done")
}
