package rpc

import "time"

// native timers: real time.After with short deadlines.
func zzArmShortDeadlines() {
	opReadTimeout, opWriteTimeout, opSyncTimeout, opUnmapTimeout, opPingTimeout = 40*time.Millisecond, 40*time.Millisecond, 40*time.Millisecond, 40*time.Millisecond, 40*time.Millisecond
}

func zzExpireDeadlines() { time.Sleep(2500 * time.Millisecond) }
