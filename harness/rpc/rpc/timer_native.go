package rpc

import "time"

// native timers: real time.After with short deadlines.
func zzArmShortDeadlines() {
	opReadTimeout, opWriteTimeout, opSyncTimeout, opUnmapTimeout, opPingTimeout = 40*time.Millisecond, 40*time.Millisecond, 40*time.Millisecond, 40*time.Millisecond, 40*time.Millisecond
}

func zzExpireDeadlines() { time.Sleep(2500 * time.Millisecond) }

// reads have a short deadline, everything else a long one
func zzArmMixedDeadlines() {
	opReadTimeout = 600 * time.Millisecond
	opWriteTimeout, opSyncTimeout, opUnmapTimeout, opPingTimeout = 25*time.Second, 25*time.Second, 25*time.Second, 25*time.Second
}

func zzExpireFirstDeadline() { time.Sleep(3500 * time.Millisecond) }

func zzNewTicker(d time.Duration) *time.Ticker { return time.NewTicker(d) }
