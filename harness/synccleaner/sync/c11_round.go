package sync

import (
	"errors"
	"time"

	"github.com/openebs/jiva/controller/client"
	"github.com/openebs/jiva/replica"
	replicaClient "github.com/openebs/jiva/replica/client"
)

// One round of the real background cleaner (InternalSnapshotCleaner) over the directory
// model: the controller's checkpoint and the sync agent's merge ("fold") are the
// environment; the merge may fail.

var zzCleanerCheckpoint string
var zzCleanerCheckpointFails bool
var zzCoalesceFails bool
var zzCleanerEv []string
var zzCleanerReplica *replica.Replica

func zzGetCheckpoint(c *client.ControllerClient) (string, error) {
	if zzCleanerCheckpointFails {
		return "", errors.New("zz: controller unreachable")
	}
	return zzCleanerCheckpoint, nil
}

func zzCoalesce(c *replicaClient.ReplicaClient, from, to string) error {
	if zzCoalesceFails {
		zzCleanerEv = append(zzCleanerEv, "coalesce-failed "+from)
		return errors.New("zz: fold exited with code 1")
	}
	zzCleanerEv = append(zzCleanerEv, "coalesce "+from)
	zzCleanerReplica.ZZFold(from, to)
	return nil
}

// one tick, then the ticker channel is closed: the cleaner runs exactly one round
func zzNewTicker(d time.Duration) *time.Ticker {
	ch := make(chan time.Time, 1)
	ch <- time.Time{}
	close(ch)
	return &time.Ticker{C: ch}
}

func ZZ_C11_CleanerRound() {
	n := zzParam("CLEANSNAPS", 13)
	replica.ZZInstallFS()
	user := make([]bool, n)
	removed := make([]bool, n)
	// an old user-created snapshot that was marked removed, and one that is retained
	user[2], removed[2] = true, true
	user[4] = zzNondetBool("snap4.user")
	s, r := replica.ZZCleanerServer(user, removed)
	zzAssume(s != nil && r != nil)
	zzCleanerReplica = r
	zzCleanerEv = nil
	chain, _ := r.Chain()
	zzCleanerCheckpoint = chain[2] // head, latest, checkpoint, ...
	zzCleanerCheckpointFails = zzNondetBool("checkpoint.fails")
	zzAssume(r.SetCheckpoint(zzCleanerCheckpoint) == nil)
	zzCoalesceFails = zzNondetBool("coalesce.fails")
	before := r.ZZReadAll()
	t := &Task{client: &client.ControllerClient{}}
	t.InternalSnapshotCleaner(s, &replicaClient.ReplicaClient{})
	after, _ := r.Chain()
	gone := []string{}
	for _, x := range chain {
		found := false
		for _, y := range after {
			if x == y {
				found = true
			}
		}
		if !found {
			gone = append(gone, x)
		}
	}
	zzAssert(len(gone) <= 1, "C11.cleaner-round-removed-more-than-one-snapshot")
	for _, g := range gone {
		zzReach("C11.cleaner-round.removed")
		merged := false
		for _, e := range zzCleanerEv {
			if e == "coalesce "+g {
				merged = true
			}
		}
		zzAssert(merged, "C11.cleaner-removed-a-snapshot-whose-merge-did-not-succeed")
		zzAssert(g != chain[0] && g != chain[1] && g != chain[len(chain)-1], "C11.cleaner-removed-head-latest-or-base")
		zzAssert(g != zzCleanerCheckpoint, "C11.cleaner-removed-the-checkpoint")
	}
	if zzCleanerCheckpointFails {
		zzAssert(len(gone) == 0 && len(zzCleanerEv) == 0, "C11.cleaner-acted-without-a-checkpoint")
	}
	now := r.ZZReadAll()
	same := len(now) == len(before)
	for i := range before {
		if i < len(now) && now[i] != before[i] {
			same = false
		}
	}
	zzAssert(same, "C11.cleaner-round-changed-the-live-volume")
	zzReach("C11.cleaner-round.done")
}
