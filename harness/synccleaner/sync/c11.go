package sync

//zz:rt

import (
	"github.com/openebs/jiva/replica"
)

// C11 (cleaner): the background cleaner never selects the checkpoint or anything
// newer, a retained user-created snapshot, or a snapshot whose merge target is one.
func ZZ_C11_CleanerFilter() {
	n := zzParam("SNAPS", 5)
	replica.ZZInstallFS()
	user := make([]bool, n)
	removed := make([]bool, n)
	for i := 0; i < n; i++ {
		user[i] = zzNondetBool("user")
		removed[i] = zzNondetBool("removed")
	}
	r := replica.ZZChainReplica(user, removed)
	zzAssume(r != nil)
	chain, _ := r.Chain() // head first
	// checkpoint: any chain member, an unknown name, or none
	pool := append([]string{}, chain...)
	pool = append(pool, "volume-snap-zz.img", "")
	cp := pool[zzConcretize(zzChoice("checkpoint", len(pool)))]
	got, err := GetDeleteCandidateChain(r, cp)
	zzAssert(err == nil, "C11.cleaner-error")
	pos := func(name string) int { // 0 = base
		for i := range chain {
			if chain[len(chain)-1-i] == name {
				return i
			}
		}
		return -1
	}
	cpPos := pos(cp)
	if cp == "" || cpPos < 0 {
		zzReach("C11.cleaner.no-checkpoint")
		zzAssert(len(got) == 0, "C11.cleaner-selected-without-valid-checkpoint")
	}
	for _, name := range got {
		zzReach("C11.cleaner.selected")
		p := pos(name)
		zzAssert(p > 0, "C11.cleaner-selected-base-or-unknown")
		zzAssert(p < cpPos, "C11.cleaner-selected-checkpoint-or-newer")
		zzAssert(name != r.ZZHead(), "C11.cleaner-selected-head")
		u, rm, parent, ok := r.ZZDiskFlags(name)
		zzAssert(ok, "C11.cleaner-selected-unknown-disk")
		zzAssert(!(u && !rm), "C11.cleaner-selected-retained-user-snapshot")
		pu, prm, _, pok := r.ZZDiskFlags(parent)
		zzAssert(pok, "C11.cleaner-selected-snapshot-without-parent")
		zzAssert(!(pu && !prm), "C11.cleaner-selected-snapshot-merging-into-retained-user-snapshot")
	}
	for i := range got {
		for j := i + 1; j < len(got); j++ {
			zzAssert(got[i] != got[j], "C11.cleaner-selected-duplicate")
		}
	}
}
