package client

//zz:rt

import (
	"bytes"
	"encoding/json"
	"errors"
	"io"
	"net/http"

	"github.com/openebs/jiva/replica/rest"
)

// E-http-client for the replica REST client used by the controller and the sync code
// (rebuild, clone, snapshot deletion).  The replica answers GET /replicas/1 with its
// description - mode and the action links valid in its state - and each POST with a
// status code; the transport may fail; a 2xx body decodes or does not.  Contract checked:
// a call reports success only if every request it made was answered 2xx and decoded, it
// posts the input it was given to the link of the action it is named after, and the
// mode-gated calls (remove / replace / prepare-remove) post nothing unless the replica
// reports mode RW.

type zzBody struct{}

func (zzBody) Read(p []byte) (int, error) { return 0, io.EOF }
func (zzBody) Close() error               { return nil }

var (
	zzGetOutcome, zzPostOutcome int // 0 transport error, 1 = 200, 2 = 500, 3 = 404
	zzDecodeFails               bool
	zzMode                      string
	zzPosts                     []string
	zzPosted                    []interface{}
	zzGets                      []string
	zzDeletes                   []string
	zzLastMarshal               interface{}
	zzTimeoutAtPost             int64
)

var zzActionLinks = map[string]string{}

func zzResp(outcome int) (*http.Response, error) {
	switch outcome {
	case 0:
		return nil, errors.New("zz: connection refused")
	case 1:
		return &http.Response{StatusCode: 200, Status: "200 OK", Body: zzBody{}}, nil
	case 2:
		return &http.Response{StatusCode: 500, Status: "500 Internal Server Error", Body: zzBody{}}, nil
	}
	return &http.Response{StatusCode: 404, Status: "404 Not Found", Body: zzBody{}}, nil
}

func zzHTTPGet(c *http.Client, url string) (*http.Response, error) {
	zzGets = append(zzGets, url)
	return zzResp(zzGetOutcome)
}

func zzHTTPPost(c *http.Client, url, contentType string, body io.Reader) (*http.Response, error) {
	zzTimeoutAtPost = int64(c.Timeout)
	zzPosts = append(zzPosts, url)
	zzPosted = append(zzPosted, zzLastMarshal)
	// a link the replica did not offer (action not valid in its state) answers 404
	known := false
	for _, l := range zzActionLinks {
		if l == url {
			known = true
		}
	}
	if !known {
		return zzResp(3)
	}
	return zzResp(zzPostOutcome)
}

func zzNewRequest(method, url string, body io.Reader) (*http.Request, error) {
	if method == "DELETE" {
		zzDeletes = append(zzDeletes, url)
	}
	return &http.Request{Method: method, Header: http.Header{}}, nil
}
func zzHTTPDo(c *http.Client, req *http.Request) (*http.Response, error) { return zzResp(zzPostOutcome) }

func zzMarshal(v interface{}) ([]byte, error) { zzLastMarshal = v; return []byte("{}"), nil }
func zzNewBuffer(b []byte) *bytes.Buffer      { return &bytes.Buffer{} }
func zzNewDecoder(r io.Reader) *json.Decoder  { return &json.Decoder{} }
func zzReadAll(r io.Reader) ([]byte, error)   { return nil, nil }

func zzDecode(d *json.Decoder, v interface{}) error {
	if zzDecodeFails {
		return errors.New("zz: unexpected end of JSON input")
	}
	if out, ok := v.(*rest.Replica); ok {
		out.Actions = zzActionLinks
		out.ReplicaMode = zzMode
		out.State = "open"
		out.Chain = []string{"volume-head-001.img", "volume-snap-a.img"}
	}
	return nil
}

const zzBase = "http://h1:9502/v1"

func zzHTTPClient() *ReplicaClient {
	return &ReplicaClient{address: zzBase, syncAgent: "http://h1:9504/v1", host: "h1", httpClient: &http.Client{}}
}

func ZZ_Env_ReplicaClientAction() {
	zzPosts, zzPosted, zzGets, zzDeletes = nil, nil, nil, nil
	zzGetOutcome = zzConcretize(zzChoice("get.outcome", 4))
	zzPostOutcome = zzConcretize(zzChoice("post.outcome", 4))
	zzDecodeFails = zzNondetBool("decode.fails")
	zzMode = zzConcStr(zzPick("mode", "RW", "WO", ""))
	all := []string{"create", "revert", "delete", "close", "setrebuilding", "removedisk", "replacedisk", "prepareremovedisk", "open", "reload", "updatecloneinfo"}
	zzActionLinks = map[string]string{}
	offered := zzNondetBool("action-offered-in-this-state")
	for _, a := range all {
		if offered || a == "reload" || a == "updatecloneinfo" {
			zzActionLinks[a] = zzBase + "/replicas/1?action=" + a
		}
	}
	c := zzHTTPClient()
	var err error
	action := all[zzConcretize(zzChoice("action", len(all)))]
	needsRW, usesGet := false, true
	switch action {
	case "create":
		err = c.Create("8192")
	case "revert":
		err = c.Revert("volume-snap-a.img", "t")
	case "close":
		err = c.Close()
	case "setrebuilding":
		err = c.SetRebuilding(zzNondetBool("rebuilding"))
	case "removedisk":
		needsRW = true
		err = c.RemoveDisk("volume-snap-a.img")
	case "replacedisk":
		needsRW = true
		err = c.ReplaceDisk("volume-snap-a.img", "volume-snap-b.img")
	case "prepareremovedisk":
		needsRW = true
		_, err = c.PrepareRemoveDisk("volume-snap-a.img")
	case "open":
		err = c.OpenReplica()
	case "reload":
		usesGet = false
		_, err = c.ReloadReplica()
	case "updatecloneinfo":
		usesGet = false
		_, err = c.UpdateCloneInfo("s1", "7")
	default:
		// delete: status query, then one DELETE request; a transport failure or a refusal is
		// an error for the caller (the controller reports it per replica), never a panic
		err = c.Delete("/delete")
		if zzGetOutcome == 1 && !zzDecodeFails {
			zzReach("env.rclient.delete-sent")
			zzAssert(len(zzDeletes) == 1 && zzDeletes[0] == zzBase+"/delete", "env.rclient.delete-not-sent")
			if zzPostOutcome == 0 {
				zzAssert(err != nil, "env.rclient.failed-delete-reported-as-success")
			}
		} else {
			zzAssert(err != nil && len(zzDeletes) == 0, "env.rclient.delete-sent-after-failed-status-query")
		}
		return
	}
	link := zzBase + "/replicas/1?action=" + action
	getOK := !usesGet || (zzGetOutcome == 1 && !zzDecodeFails)
	if !getOK {
		zzReach("env.rclient.status-query-failed")
		zzAssert(err != nil, "env.rclient.failed-status-query-swallowed")
		zzAssert(len(zzPosts) == 0, "env.rclient.action-posted-after-failed-status-query")
		return
	}
	if needsRW && zzMode != "RW" {
		zzReach("env.rclient.refused-not-RW")
		zzAssert(err != nil, "env.rclient.chain-changing-call-accepted-on-replica-not-RW")
		zzAssert(len(zzPosts) == 0, "env.rclient.chain-changing-call-posted-to-replica-not-RW")
		return
	}
	zzAssert(len(zzPosts) == 1, "env.rclient.not-exactly-one-post")
	hasOutput := action == "prepareremovedisk" || action == "reload" || action == "updatecloneinfo"
	postOK := (offered || !usesGet) && zzPostOutcome == 1 && (!hasOutput || !zzDecodeFails)
	if postOK {
		zzReach("env.rclient.action-ok")
		zzAssert(err == nil, "env.rclient.successful-action-reported-as-failure")
		zzAssert(len(zzPosts) == 1 && zzPosts[0] == link, "env.rclient.posted-to-another-action")
	} else {
		zzReach("env.rclient.action-failed")
		zzAssert(err != nil, "env.rclient.failed-action-reported-as-success")
	}
	if action == "revert" {
		zzAssert(zzTimeoutAtPost == 0, "env.rclient.revert-sent-with-a-timeout")
	}
}
