package replica

// C01 / C06 at block-map level.

func zzBounds() (B, U, F int) {
	return zzParam("B", 3), zzParam("U", 4), zzParam("F", 3)
}

func ZZ_C01_WriteStep() {
	B, U, Fmax := zzBounds()
	F := zzConcretize(zzChoice("F", Fmax)) + 1
	z := zzMkDiffDisk(B, U, F, true)
	d := z.d
	zzStartHoleWorker()
	img := z.image(F)
	var snaps [][]byte
	for s := 0; s < F; s++ {
		snaps = append(snaps, z.image(s))
	}
	total := B * U
	off := zzConcretize(zzChoice("off", total))
	n := zzConcretize(zzChoice("len", total-off)) + 1
	buf := z.buf(n)
	vals := make([]byte, n)
	for i := 0; i < n; i++ {
		vals[i] = zzNondetByte("buf")
		z.setUnit(buf, i, vals[i])
	}
	before := z.presence()
	got, err := d.WriteAt(buf, int64(off)*zzScale(U))
	if zzNondetBool("holes.now") {
		zzSettle()
		zzReach("C01.write.holes-applied")
	}
	zzAssert(err == nil && got >= len(buf), "C01.write-result") // single-block RMW reports the block size
	img2 := z.image(F)
	for x := 0; x < total; x++ {
		want := img[x]
		if x >= off && x < off+n {
			want = vals[x-off]
		}
		zzAssert(img2[x] == want, "C01.image-after-write")
	}
	// C06: every snapshot at or below the newest user snapshot is unchanged
	for s := 1; s < F; s++ {
		after := z.image(s)
		same := true
		for x := 0; x < total; x++ {
			same = zzAnd(same, after[x] == snaps[s][x])
		}
		zzAssert(zzImplies(s <= d.SnapIndx, same), "C06.snapshot-changed-by-write")
	}
	z.checkProtected("C06.write", before)
	z.checkInvD("C01.write")
	zzReach("C01.write.done")
	zzCleanupFiles()
}

func ZZ_C01_ReadStep() {
	B, U, Fmax := zzBounds()
	F := zzConcretize(zzChoice("F", Fmax)) + 1
	z := zzMkDiffDisk(B, U, F, true)
	d := z.d
	img := z.image(F)
	total := B * U
	off := zzConcretize(zzChoice("off", total))
	n := zzConcretize(zzChoice("len", total-off)) + 1
	buf := z.buf(n)
	got, err := d.ReadAt(buf, int64(off)*zzScale(U))
	zzAssert(err == nil && got == len(buf), "C01.read-result")
	for i := 0; i < n; i++ {
		zzAssert(z.unit(buf, i) == img[off+i], "C01.read-returns-image")
	}
	img2 := z.image(F)
	for x := 0; x < total; x++ {
		zzAssert(img2[x] == img[x], "C01.read-changed-image")
	}
	z.checkInvD("C01.read")
	zzReach("C01.read.done")
	zzCleanupFiles()
}

// reopen: a fresh map over the same files, with or without extent preload
func ZZ_C01_Reopen() {
	B, U, Fmax := zzBounds()
	F := zzConcretize(zzChoice("F", Fmax)) + 1
	z := zzMkDiffDisk(B, U, F, false)
	d := z.d
	zzStartHoleWorker()
	img := z.image(F)
	var snaps [][]byte
	for s := 0; s < F; s++ {
		snaps = append(snaps, z.image(s))
	}
	total := B * U
	before := z.presence()
	if zzNondetBool("preload") {
		err := preload(d)
		zzAssert(err == nil, "C01.preload-error")
		zzReach("C01.reopen.preload")
		if zzNondetBool("holes.now") {
			zzSettle()
		}
		z.checkInvD("C01.preload")
	}
	rb := z.buf(total)
	rn, rerr := d.ReadAt(rb, 0)
	zzAssert(rerr == nil && rn == len(rb), "C01.read-result-after-reopen")
	for x := 0; x < total; x++ {
		zzAssert(z.unit(rb, x) == img[x], "C01.read-after-reopen")
	}
	zzSettle()
	for s := 1; s < F; s++ {
		after := z.image(s)
		same := true
		for x := 0; x < total; x++ {
			same = zzAnd(same, after[x] == snaps[s][x])
		}
		zzAssert(zzImplies(s <= d.SnapIndx, same), "C06.snapshot-changed-by-preload")
	}
	z.checkProtected("C06.preload", before)
	z.checkInvD("C01.reopen")
	zzReach("C01.reopen.done")
	zzCleanupFiles()
}
