package replica

// C01 / C06 at block-map level.

func zzBounds() (B, U, F int) {
	return zzParam("B", 3), zzParam("U", 4), zzParam("F", 3)
}

func ZZ_C01_WriteStep() {
	B, U, Fmax := zzBounds()
	F := zzConcretize(zzChoice("F", Fmax)) + 1
	z := zzMkDiffDisk(B, U, F, true)
	d := z.d
	zzStartHoleWorker()
	img := z.image(F)
	var snaps [][]byte
	for s := 0; s < F; s++ {
		snaps = append(snaps, z.image(s))
	}
	total := B * U
	off := zzConcretize(zzChoice("off", total))
	n := zzConcretize(zzChoice("len", total-off)) + 1
	buf := z.buf(n)
	vals := make([]byte, n)
	for i := 0; i < n; i++ {
		vals[i] = zzNondetByte("buf")
		z.setUnit(buf, i, vals[i])
	}
	before := z.presence()
	got, err := d.WriteAt(buf, int64(off)*zzScale(U))
	if zzNondetBool("holes.now") {
		zzSettle()
		zzReach("C01.write.holes-applied")
	}
	zzAssert(err == nil && got >= len(buf), "C01.write-result") // single-block RMW reports the block size
	img2 := z.image(F)
	for x := 0; x < total; x++ {
		want := img[x]
		if x >= off && x < off+n {
			want = vals[x-off]
		}
		zzAssert(img2[x] == want, "C01.image-after-write")
	}
	// C06: every snapshot at or below the newest user snapshot is unchanged
	for s := 1; s < F; s++ {
		after := z.image(s)
		same := true
		for x := 0; x < total; x++ {
			same = zzAnd(same, after[x] == snaps[s][x])
		}
		zzAssert(zzImplies(s <= d.SnapIndx, same), "C06.snapshot-changed-by-write")
	}
	z.checkProtected("C06.write", before)
	z.checkInvD("C01.write")
	zzReach("C01.write.done")
	zzCleanupFiles()
}

func ZZ_C01_ReadStep() {
	B, U, Fmax := zzBounds()
	F := zzConcretize(zzChoice("F", Fmax)) + 1
	z := zzMkDiffDisk(B, U, F, true)
	d := z.d
	img := z.image(F)
	total := B * U
	off := zzConcretize(zzChoice("off", total))
	n := zzConcretize(zzChoice("len", total-off)) + 1
	buf := z.buf(n)
	for i := 0; i < n; i++ {
		z.setUnit(buf, i, 0xEE) // the destination is not assumed to be zeroed
	}
	got, err := d.ReadAt(buf, int64(off)*zzScale(U))
	zzAssert(err == nil && got == len(buf), "C01.read-result")
	for i := 0; i < n; i++ {
		zzAssert(z.unit(buf, i) == img[off+i], "C01.read-returns-image")
	}
	img2 := z.image(F)
	for x := 0; x < total; x++ {
		zzAssert(img2[x] == img[x], "C01.read-changed-image")
	}
	z.checkInvD("C01.read")
	zzReach("C01.read.done")
	zzCleanupFiles()
}

// reopen: a fresh map over the same files, with or without extent preload
func ZZ_C01_Reopen() {
	B, U, Fmax := zzBounds()
	F := zzConcretize(zzChoice("F", Fmax)) + 1
	z := zzMkDiffDisk(B, U, F, false)
	d := z.d
	zzStartHoleWorker()
	img := z.image(F)
	var snaps [][]byte
	for s := 0; s < F; s++ {
		snaps = append(snaps, z.image(s))
	}
	total := B * U
	before := z.presence()
	if zzNondetBool("preload") {
		err := preload(d)
		zzAssert(err == nil, "C01.preload-error")
		zzReach("C01.reopen.preload")
		if zzNondetBool("holes.now") {
			zzSettle()
		}
		z.checkInvD("C01.preload")
	}
	// every (offset, length) in turn, each into a buffer that already holds other bytes:
	// ReadAt has to produce every byte of the range, zeros included
	for off := 0; off < total; off++ {
		for n := 1; n <= total-off; n++ {
			rb := z.buf(n)
			for i := 0; i < n; i++ {
				z.setUnit(rb, i, 0xEE)
			}
			rn, rerr := d.ReadAt(rb, int64(off)*zzScale(U))
			zzAssert(rerr == nil && rn == len(rb), "C01.read-result-after-reopen")
			for i := 0; i < n; i++ {
				zzAssert(z.unit(rb, i) == img[off+i], "C01.read-after-reopen")
			}
		}
	}
	zzSettle()
	for s := 1; s < F; s++ {
		after := z.image(s)
		same := true
		for x := 0; x < total; x++ {
			same = zzAnd(same, after[x] == snaps[s][x])
		}
		zzAssert(zzImplies(s <= d.SnapIndx, same), "C06.snapshot-changed-by-preload")
	}
	z.checkProtected("C06.preload", before)
	z.checkInvD("C01.reopen")
	zzReach("C01.reopen.done")
	zzCleanupFiles()
}

// C06 (revert): reverting to snapshot s = the chain truncated at s plus a fresh empty
// head, reopened with extent preload (what revertDisk + Reload(true) build): the
// volume reads back exactly the image of snapshot s, and snapshots <= s are untouched.
func ZZ_C06_Revert() {
	B, U, Fmax := zzBounds()
	F := zzConcretize(zzChoice("F", Fmax)) + 1
	z := zzMkDiffDisk(B, U, F, false)
	if F < 2 {
		return
	}
	zzStartHoleWorker()
	s := 1 + zzConcretize(zzChoice("target", F-1)) // a snapshot index 1..F-1
	want := z.image(s)
	var snaps [][]byte
	for k := 0; k <= s; k++ {
		snaps = append(snaps, z.image(k))
	}
	// the reverted replica: files 1..s + new empty head
	nz := &zzDisk{B: B, U: U, F: s + 1, files: make([]*zzFile, s+2)}
	nd := &diffDisk{rmLock: zzNewMutex(), sectorSize: int64(U) * zzScale(U), location: make([]uint16, B)}
	nd.files = append(nd.files, nil)
	nd.UserCreatedSnap = []bool{false}
	for i := 1; i <= s; i++ {
		nz.files[i] = z.files[i]
		nd.files = append(nd.files, z.files[i])
		nd.UserCreatedSnap = append(nd.UserCreatedSnap, z.d.UserCreatedSnap[i])
		// openLiveChain: SnapIndx = index of the newest user-created snapshot
		if z.d.UserCreatedSnap[i] {
			nd.SnapIndx = i
		}
	}
	nz.files[s+1] = zzEmptyFile(B, U)
	nd.files = append(nd.files, nz.files[s+1])
	nd.UserCreatedSnap = append(nd.UserCreatedSnap, false)
	nz.d = nd
	before := nz.presence()
	err := preload(nd)
	zzAssert(err == nil, "C06.revert.preload-error")
	if zzNondetBool("holes.now") {
		zzSettle()
	}
	total := B * U
	rb := nz.buf(total)
	n, rerr := nd.ReadAt(rb, 0)
	zzAssert(rerr == nil && n == len(rb), "C06.revert.read-error")
	userTarget := z.d.UserCreatedSnap[s]
	for x := 0; x < total; x++ {
		// promised for user-created targets (automatic ones may have been thinned)
		zzAssert(zzImplies(userTarget, nz.unit(rb, x) == want[x]), "C06.revert-does-not-read-snapshot-image")
	}
	zzSettle()
	for k := 1; k <= s; k++ {
		after := nz.image(k)
		same := true
		for x := 0; x < total; x++ {
			same = zzAnd(same, after[x] == snaps[k][x])
		}
		zzAssert(zzImplies(k <= nd.SnapIndx, same), "C06.revert-changed-a-retained-snapshot")
	}
	nz.checkProtected("C06.revert", before)
	nz.checkInvD("C06.revert")
	zzReach("C06.revert.done")
	zzCleanupFiles()
}

// C02 at the replica (an acknowledgement means "applied"): with one data transfer of
// the chain files failing (EIO / ENOSPC on one extent), a write that diffDisk reports
// as successful has put every byte in place, and a read reported as successful returns
// the image; a failed part is never masked by a later part that succeeded.
func ZZ_C02_ReplicaAckImpliesApplied() {
	B, U, Fmax := zzBounds()
	F := zzConcretize(zzChoice("F", Fmax)) + 1
	z := zzMkDiffDisk(B, U, F, true)
	d := z.d
	zzStartHoleWorker()
	img := z.image(F)
	total := B * U
	off := zzConcretize(zzChoice("off", total))
	n := zzConcretize(zzChoice("len", total-off)) + 1
	buf := z.buf(n)
	vals := make([]byte, n)
	for i := 0; i < n; i++ {
		vals[i] = zzNondetByte("buf")
		z.setUnit(buf, i, vals[i])
	}
	zzFileOps = 0
	zzFileFailAt = zzConcretize(zzChoice("fail.at", 6))
	isRead := zzNondetBool("read")
	if isRead {
		rb := z.buf(n)
		for i := 0; i < n; i++ {
			z.setUnit(rb, i, 0xEE)
		}
		_, err := d.ReadAt(rb, int64(off)*zzScale(U))
		injected := zzFileOps > zzFileFailAt
		zzFileFailAt = -1
		zzAssume(injected)
		if err == nil {
			zzReach("C02.replica.read-ok-despite-fault")
			for i := 0; i < n; i++ {
				zzAssert(z.unit(rb, i) == img[off+i], "C02.replica.read-reported-ok-with-wrong-data")
			}
		} else {
			zzReach("C02.replica.read-failed")
		}
		zzCleanupFiles()
		return
	}
	_, err := d.WriteAt(buf, int64(off)*zzScale(U))
	injected := zzFileOps > zzFileFailAt
	zzFileFailAt = -1
	zzAssume(injected) // otherwise this is the fault-free step of C01
	zzSettle()
	if err == nil {
		zzReach("C02.replica.write-ok-despite-fault")
		img2 := z.image(F)
		for x := off; x < off+n; x++ {
			zzAssert(img2[x] == vals[x-off], "C02.replica.write-acknowledged-but-not-applied")
		}
	} else {
		zzReach("C02.replica.write-failed")
	}
	// an acknowledged write leaves bytes outside its range as they were (a replica that
	// reported the failure is detached by the controller; its content is then unspecified:
	// fullWriteAt marks the blocks written "regardless of err")
	if err == nil {
		img3 := z.image(F)
		for x := 0; x < total; x++ {
			if x < off || x >= off+n {
				zzAssert(img3[x] == img[x], "C02.replica.acknowledged-write-changed-bytes-outside-its-range")
			}
		}
	}
	zzCleanupFiles()
}

// C01 / C06 (the block map a reopen or a revert builds from the files' extents): for any
// presence map over PB blocks in PF files - so that a file can have several extents
// and FIEMAP hands them back over several calls - preload leaves every block of the map
// at the newest file that holds it (never at an older file that holds older data).
func ZZ_C01_PreloadMap() {
	B, U := zzParam("PB", 5), zzParam("U", 2)
	F := zzParam("PF", 2)
	z := zzMkDiffDisk(B, U, F, false)
	d := z.d
	err := preload(d)
	zzAssert(err == nil, "C01.preloadmap.error")
	for b := 0; b < B; b++ {
		t := z.top(b, F)
		zzAssert(int(d.location[b]) == t, "C01.preloadmap.block-not-mapped-to-the-newest-file-holding-it")
	}
	z.checkInvD("C01.preloadmap")
	zzReach("C01.preloadmap.done")
	zzCleanupFiles()
}
