package replica

//zz:rt

import (
	"fmt"
	"os"
	"syscall"

	fibmap "github.com/frostschutz/go-fibmap"
	"github.com/openebs/jiva/types"
)

// E-file (native variant, used by replays): a real sparse file on the sandbox's
// ext4 file system.  One unit is 4096/U bytes, so a block is 4096 bytes and the
// real FIEMAP / fallocate(PUNCH_HOLE) calls of the code under test work on it.

type zzFile struct {
	*os.File
	fd     uintptr
	blocks int
	u      int
}

var zzTmpDir string

// fault injection (same counter as the symbolic variant)
var (
	zzFileOps    int
	zzFileFailAt = -1
	zzErrFileIO  = &zzFileError{}
)

type zzFileError struct{}

func (*zzFileError) Error() string { return "zz: injected I/O error" }

func zzFileFault() bool {
	n := zzFileOps
	zzFileOps++
	return n == zzFileFailAt
}

func (f *zzFile) ReadAt(buf []byte, off int64) (int, error) {
	if zzFileFault() {
		return 0, zzErrFileIO
	}
	return f.File.ReadAt(buf, off)
}

func (f *zzFile) WriteAt(buf []byte, off int64) (int, error) {
	if zzFileFault() {
		return 0, zzErrFileIO
	}
	return f.File.WriteAt(buf, off)
}

func zzScale(u int) int64 { return int64(4096 / u) }

func zzNewFile(blocks, u int, present []bool, data []byte) *zzFile {
	if zzTmpDir == "" {
		d, err := os.MkdirTemp("/var/tmp", "verif.efile.")
		if err != nil {
			panic(err)
		}
		zzTmpDir = d
	}
	f, err := os.CreateTemp(zzTmpDir, "f*.img")
	if err != nil {
		panic(err)
	}
	if err := f.Truncate(int64(blocks) * 4096); err != nil {
		panic(err)
	}
	s := int(zzScale(u))
	for b := 0; b < blocks; b++ {
		if !present[b] {
			continue
		}
		blk := make([]byte, 4096)
		for k := 0; k < u; k++ {
			for j := 0; j < s; j++ {
				blk[k*s+j] = data[b*u+k]
			}
		}
		if _, err := f.WriteAt(blk, int64(b)*4096); err != nil {
			panic(err)
		}
	}
	f.Sync()
	return &zzFile{File: f, fd: f.Fd(), blocks: blocks, u: u}
}

func zzCleanupFiles() {
	if zzTmpDir != "" {
		os.RemoveAll(zzTmpDir)
	}
}

func (f *zzFile) presentAt(b int) bool {
	f.File.Sync()
	e, errno := fibmap.Fiemap(f.File.Fd(), uint64(b)*4096, 4096, 1)
	if errno != 0 {
		panic(fmt.Sprintf("fiemap: %v", errno))
	}
	return len(e) > 0
}

func (f *zzFile) byteAt(x int) byte {
	buf := make([]byte, 1)
	f.File.ReadAt(buf, int64(x)*zzScale(f.u))
	return buf[0]
}

var _ types.DiffDisk = (*zzFile)(nil)

// coalesce helpers (A-sfold) on real files
func zzFoldUnit(dst, src *zzFile, x int, p bool) {
	if !p {
		return
	}
	s := zzScale(dst.u)
	buf := make([]byte, s)
	src.File.ReadAt(buf, int64(x)*s)
	dst.File.WriteAt(buf, int64(x)*s)
}
func zzFoldPresent(dst *zzFile, b int, p bool) { dst.File.Sync() }

// native variant of the scaled extent batch (see efile_sym.go): the real FIEMAP ioctl is
// asked for the scaled number of extents, so the walker has to continue as it must on a
// file with more extents than one batch holds
func zzFiemap(fd uintptr, start, length uint64, size uint32) ([]fibmap.Extent, syscall.Errno) {
	if size >= 1024 {
		size = size / 1024
	}
	return fibmap.Fiemap(fd, start, length, size)
}
