package replica

import (
	"sync"

	"github.com/openebs/jiva/types"
)

// zzDisk: a diffDisk over E-files in an arbitrary state satisfying Inv-D.
type zzDisk struct {
	d       *diffDisk
	files   []*zzFile // index 1..F, files[0] == nil
	B, U, F int
}

func zzStartHoleWorker() {
	HoleCreatorChan = make(chan Hole, 64)
	types.DrainOps = 0
	go CreateHoles()
}

// zzSymFile: a file with symbolic presence and data (absent blocks read zero).
func zzSymFile(tag string, B, U int) *zzFile {
	present := make([]bool, B)
	data := make([]byte, B*U)
	for b := 0; b < B; b++ {
		present[b] = zzNondetBool(tag + ".present")
		for k := 0; k < U; k++ {
			data[b*U+k] = zzIteByte(present[b], zzNondetByte(tag+".data"), 0)
		}
	}
	return zzNewFile(B, U, present, data)
}

func zzEmptyFile(B, U int) *zzFile {
	return zzNewFile(B, U, make([]bool, B), make([]byte, B*U))
}

// top: index of the newest file (<= upto) holding block b, 0 if none
func (z *zzDisk) top(b int, upto int) int {
	t := 0
	for i := 1; i <= upto; i++ {
		t = zzIteInt(z.files[i].presentAt(b), i, t)
	}
	return t
}

// image as seen through files 1..upto (upto = F: live image)
func (z *zzDisk) image(upto int) []byte {
	img := make([]byte, z.B*z.U)
	for x := range img {
		var v byte
		for i := 1; i <= upto; i++ {
			v = zzIteByte(z.files[i].presentAt(x/z.U), z.files[i].byteAt(x), v)
		}
		img[x] = v
	}
	return img
}

func zzMkDiffDisk(B, U, F int, symbolicMap bool) *zzDisk {
	z := &zzDisk{B: B, U: U, F: F, files: make([]*zzFile, F+1)}
	d := &diffDisk{rmLock: &sync.Mutex{}, sectorSize: int64(U) * zzScale(U), location: make([]uint16, B),
		files: []types.DiffDisk{nil}, UserCreatedSnap: []bool{false}}
	snapIndx := 0
	for i := 1; i <= F; i++ {
		z.files[i] = zzSymFile("f", B, U)
		d.files = append(d.files, z.files[i])
		user := false
		if i < F {
			user = zzNondetBool("user")
			snapIndx = zzIteInt(user, i, snapIndx)
		}
		d.UserCreatedSnap = append(d.UserCreatedSnap, user)
	}
	d.SnapIndx = snapIndx
	z.d = d
	if symbolicMap {
		// Inv-D, constructively: location[b] is 0 (unknown) or the newest file holding b;
		// a block held by no file is 0 or 1 (the base, as lookup resolves it)
		for b := 0; b < B; b++ {
			unknown := zzNondetBool("loc.unknown")
			base := zzNondetBool("loc.base")
			t := z.top(b, F)
			loc := zzIteInt(unknown, 0, zzIteInt(t == 0, zzIteInt(zzAnd(base, F > 1), 1, 0), t))
			d.location[b] = uint16(loc)
		}
	}
	types.ShouldPunchHoles = zzNondetBool("punch")
	return z
}

func (z *zzDisk) checkInvD(tag string) {
	d := z.d
	F := len(d.files) - 1
	zzAssert(len(d.UserCreatedSnap) == len(d.files), tag+".invD.usercreated-length")
	for b := 0; b < z.B; b++ {
		t := 0
		for i := 1; i <= F; i++ {
			t = zzIteInt(d.files[i].(*zzFile).presentAt(b), i, t)
		}
		loc := int(d.location[b])
		zzAssert(zzOr(loc == 0, zzOr(loc == t, zzAnd(t == 0, zzAnd(loc == 1, F > 1)))), tag+".invD.location-not-newest-owner")
	}
	for i := 1; i <= F; i++ {
		zzAssert(zzImplies(d.UserCreatedSnap[i], d.SnapIndx >= i), tag+".invD.SnapIndx-below-user-snapshot")
	}
}

// unit-granular buffers: natively one unit is zzScale(U) bytes
func (z *zzDisk) buf(n int) []byte { return make([]byte, int64(n)*zzScale(z.U)) }
func (z *zzDisk) setUnit(b []byte, i int, v byte) {
	s := int(zzScale(z.U))
	for j := 0; j < s; j++ {
		b[i*s+j] = v
	}
}
func (z *zzDisk) unit(b []byte, i int) byte { return b[i*int(zzScale(z.U))] }

// presence snapshot of every file and block (for the "no block of a protected
// snapshot disappears" assertion)
func (z *zzDisk) presence() [][]bool {
	out := make([][]bool, len(z.files))
	for i := 1; i < len(z.files); i++ {
		out[i] = make([]bool, z.B)
		for b := 0; b < z.B; b++ {
			out[i][b] = z.files[i].presentAt(b)
		}
	}
	return out
}

func (z *zzDisk) checkProtected(tag string, before [][]bool) {
	for i := 1; i < len(before); i++ {
		kept := true
		for b := 0; b < z.B; b++ {
			kept = zzAnd(kept, zzImplies(before[i][b], z.files[i].presentAt(b)))
		}
		zzAssert(zzImplies(i <= z.d.SnapIndx, kept), tag+".block-reclaimed-at-or-below-user-snapshot")
	}
}

func zzNewMutex() *sync.Mutex { return &sync.Mutex{} }
