package replica

// C11 (data): deleting a snapshot = coalesce it into its parent (A-sfold: child
// blocks override the parent's) + the real diffDisk.RemoveIndex: the live image and
// every other retained snapshot image are unchanged.
func ZZ_C11_RemoveData() {
	B, U, _ := zzBounds()
	F := zzParam("F11", 4)
	z := zzMkDiffDisk(B, U, F, true)
	d := z.d
	total := B * U
	// removable members: neither base (1), latest snapshot (F-1) nor head (F)
	if F < 4 {
		return
	}
	i := 2 + zzConcretize(zzChoice("victim", F-3))
	img := z.image(F)
	var snaps [][]byte
	for s := 0; s <= F; s++ {
		snaps = append(snaps, z.image(s))
	}
	// sfold contract: blocks of file i override those of file i-1
	src, dst := z.files[i], z.files[i-1]
	for b := 0; b < B; b++ {
		p := src.presentAt(b)
		for k := 0; k < U; k++ {
			x := b*U + k
			zzFoldUnit(dst, src, x, p)
		}
		zzFoldPresent(dst, b, p)
	}
	userBefore := make([]bool, F+1)
	for s := 1; s <= F; s++ {
		userBefore[s] = d.UserCreatedSnap[s]
	}
	err := d.RemoveIndex(i)
	zzAssert(err == nil, "C11.RemoveIndex-error")
	// the harness view follows: file i is gone
	z.files = append(z.files[:i], z.files[i+1:]...)
	z.F = F - 1
	img2 := z.image(F - 1)
	for x := 0; x < total; x++ {
		zzAssert(img2[x] == img[x], "C11.live-image-changed-by-snapshot-removal")
	}
	rb := z.buf(total)
	n, rerr := d.ReadAt(rb, 0)
	zzAssert(rerr == nil && n == len(rb), "C11.read-error-after-removal")
	for x := 0; x < total; x++ {
		zzAssert(z.unit(rb, x) == img[x], "C11.live-read-changed-by-snapshot-removal")
	}
	// snapshots: old index s maps to s (s < i) or s-1 (s > i); the merge target i-1
	// legitimately takes the removed snapshot's image
	for s := 1; s <= F; s++ {
		if s == i {
			continue
		}
		ns := s
		if s > i {
			ns = s - 1
		}
		after := z.image(ns)
		same := true
		for x := 0; x < total; x++ {
			same = zzAnd(same, after[x] == snaps[s][x])
		}
		if s == i-1 {
			// the merge target now shows the image of the removed snapshot
			tgt := true
			for x := 0; x < total; x++ {
				tgt = zzAnd(tgt, after[x] == snaps[i][x])
			}
			zzAssert(tgt, "C11.merge-target-does-not-hold-removed-snapshot-image")
			continue
		}
		zzAssert(same, "C11.other-snapshot-changed-by-snapshot-removal")
		zzAssert(d.UserCreatedSnap[ns] == userBefore[s], "C11.user-created-flag-moved-to-another-snapshot")
		zzAssert(zzImplies(d.UserCreatedSnap[ns], d.SnapIndx >= ns), "C11.SnapIndx-below-retained-user-snapshot")
	}
	z.checkInvD("C11.remove")
	zzReach("C11.remove.done")
	zzCleanupFiles()
}
