package replica

//zz:rt

import (
	"syscall"

	fibmap "github.com/frostschutz/go-fibmap"
	"github.com/openebs/jiva/types"
)

// E-file (symbolic variant): a sparse file as a presence map per block plus data
// per unit.  One unit stands for 4096/U bytes; sectorSize of the diffDisk is U units.

type zzFile struct {
	fd      uintptr
	blocks  int
	u       int
	present []bool
	data    []byte
	closed  bool
}

var zzFiles = map[uintptr]*zzFile{}
var zzNextFd uintptr = 10

func zzScale(u int) int64 { return 1 }

// zzNewFile: present/data are taken over (may hold symbolic values); absent blocks
// must read as zero.
func zzNewFile(blocks, u int, present []bool, data []byte) *zzFile {
	zzNextFd++
	f := &zzFile{fd: zzNextFd, blocks: blocks, u: u, present: present, data: data}
	zzFiles[f.fd] = f
	return f
}

// fault injection: the zzFileFailAt-th data transfer (reads and writes of all files,
// counted from 0) fails with an I/O error and has no effect
var (
	zzFileOps    int
	zzFileFailAt = -1
	zzErrFileIO  = &zzFileError{}
)

type zzFileError struct{}

func (*zzFileError) Error() string { return "zz: injected I/O error" }

func zzFileFault() bool {
	n := zzFileOps
	zzFileOps++
	return n == zzFileFailAt
}

func (f *zzFile) ReadAt(buf []byte, off int64) (int, error) {
	if zzFileFault() {
		return 0, zzErrFileIO
	}
	for i := range buf {
		x := int(off) + i
		if x < len(f.data) {
			buf[i] = f.data[x]
		} else {
			buf[i] = 0
		}
	}
	return len(buf), nil
}

func (f *zzFile) WriteAt(buf []byte, off int64) (int, error) {
	if zzFileFault() {
		return 0, zzErrFileIO
	}
	for i := range buf {
		x := int(off) + i
		if x < len(f.data) {
			f.data[x] = buf[i]
			f.present[x/f.u] = true
		}
	}
	return len(buf), nil
}

func (f *zzFile) Close() error { f.closed = true; return nil }
func (f *zzFile) Fd() uintptr  { return f.fd }

// oracle accessors (identical signatures in the native variant)
func (f *zzFile) presentAt(b int) bool { return f.present[b] }
func (f *zzFile) byteAt(x int) byte    { return f.data[x] }

// ---- redirect targets ----

// zzFiemap: the extents FIEMAP reports on ext4/xfs for this presence map: maximal
// runs of present blocks that intersect [start, start+length), at most size of them,
// FIEMAP_EXTENT_LAST on the file's last run.
func zzFiemap(fd uintptr, start, length uint64, size uint32) ([]fibmap.Extent, syscall.Errno) {
	f := zzFiles[fd]
	if f == nil {
		return nil, syscall.EBADF
	}
	var out []fibmap.Extent
	size = zzExtentBatch(size)
	u := uint64(f.u)
	// find the last present block (for the LAST flag)
	last := -1
	for b := 0; b < f.blocks; b++ {
		if f.present[b] {
			last = b
		}
	}
	b := 0
	for b < f.blocks {
		if !f.present[b] {
			b++
			continue
		}
		e := b
		for e+1 < f.blocks && f.present[e+1] {
			e++
		}
		lo, hi := uint64(b)*u, uint64(e+1)*u
		if hi > start && lo < start+length && uint32(len(out)) < size {
			ext := fibmap.Extent{Logical: lo, Length: hi - lo}
			if e == last {
				ext.Flags = fibmap.FIEMAP_EXTENT_LAST
			}
			out = append(out, ext)
		}
		b = e + 1
	}
	return out, 0
}

// zzFallocate: punch hole with keep-size: whole blocks in range become absent and
// read as zero; partial blocks are zeroed.
func zzFallocate(fd int, mode uint32, off int64, length int64) error {
	f := zzFiles[uintptr(fd)]
	if f == nil {
		return syscall.EBADF
	}
	for x := int(off); x < int(off+length) && x < len(f.data); x++ {
		f.data[x] = 0
	}
	for b := 0; b < f.blocks; b++ {
		if int64(b*f.u) >= off && int64((b+1)*f.u) <= off+length {
			f.present[b] = false
		}
	}
	return nil
}

func zzCleanupFiles() {}

// zzExtentBatch: FIEMAP hands back at most fm_extent_count extents per call and the
// caller continues after the last one.  The model files have a handful of blocks where a
// real chain file has millions, so the batch is scaled the same way: a request for up to
// 1024 extents stands for one extent per call (lookup's single-extent probe stays 1).
func zzExtentBatch(size uint32) uint32 {
	if size >= 1024 {
		return size / 1024
	}
	return size
}

// zzFstat: st_size and st_blocks (512-byte units) as the presence map implies
func zzFstat(fd int, st *syscall.Stat_t) error {
	f := zzFiles[uintptr(fd)]
	if f == nil {
		return syscall.EBADF
	}
	var blocks int64
	for b := 0; b < f.blocks; b++ {
		blocks += zzIteInt64(f.present[b], 8, 0)
	}
	st.Blocks = blocks
	st.Size = int64(f.blocks) * 4096
	return nil
}

var _ types.DiffDisk = (*zzFile)(nil)

// coalesce helpers (A-sfold): unit x / block b of dst takes src's when src holds it
func zzFoldUnit(dst, src *zzFile, x int, p bool) { dst.data[x] = zzIteByte(p, src.data[x], dst.data[x]) }
func zzFoldPresent(dst *zzFile, b int, p bool)  { dst.present[b] = zzOr(dst.present[b], p) }
