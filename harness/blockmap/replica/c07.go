package replica

import (
	inject "github.com/openebs/jiva/error-inject"
	"github.com/openebs/jiva/types"
)

// C07 (merge): after the snapshot files of a rebuilding replica have been made equal
// to the source's (A-ssync), Server.UpdateLUNMap (real preload of a copy of the map +
// locked merge with the live map) leaves the live volume reading exactly
// "head over snapshots", with foreground writes accepted before the copy and in the
// window between the unlocked preload and the locked merge.

func (z *zzDisk) symWrite(tag string) {
	total := z.B * z.U
	off := zzConcretize(zzChoice(tag+".off", total))
	n := zzConcretize(zzChoice(tag+".len", total-off)) + 1
	buf := z.buf(n)
	for i := 0; i < n; i++ {
		z.setUnit(buf, i, zzNondetByte(tag+".data"))
	}
	_, err := z.d.WriteAt(buf, int64(off)*zzScale(z.U))
	zzAssert(err == nil, "C07.merge.foreground-write-failed")
}

func ZZ_C07_Merge() {
	B, U, _ := zzBounds()
	F := zzParam("F07", 3)
	// a freshly added replica: empty snapshot files and head, empty map
	z := &zzDisk{B: B, U: U, F: F, files: make([]*zzFile, F+1)}
	rep := &Replica{}
	d := &rep.volume
	d.rmLock = zzNewMutex()
	d.sectorSize = int64(U) * zzScale(U)
	d.location = make([]uint16, B)
	d.files = append(d.files, nil)
	d.UserCreatedSnap = []bool{false}
	for i := 1; i <= F; i++ {
		z.files[i] = zzEmptyFile(B, U)
		d.files = append(d.files, z.files[i])
		d.UserCreatedSnap = append(d.UserCreatedSnap, false)
	}
	z.d = d
	zzStartHoleWorker()
	// sync.Task.AddReplica clears the switch, Server.Reload sets it before UpdateLUNMap
	types.ShouldPunchHoles = false
	// foreground writes accepted while the copy has not started
	if zzNondetBool("write.before") {
		z.symWrite("w1")
	}
	// the copy: snapshot files become whatever the source holds (symbolic), with the
	// source's user-created flags arriving through the copied metadata + reload
	snapIndx := 0
	for i := 1; i < F; i++ {
		nf := zzSymFile("copy", B, U)
		z.files[i] = nf
		d.files[i] = nf
		user := zzNondetBool("user")
		d.UserCreatedSnap[i] = user
		snapIndx = zzIteInt(user, i, snapIndx)
	}
	d.SnapIndx = snapIndx
	s := &Server{r: rep}
	types.ShouldPunchHoles = zzNondetBool("punch")
	during := zzNondetBool("write.during")
	inject.ZZUpdateLUNMapHook = func() {
		if during {
			z.symWrite("w2")
		}
	}
	var snaps [][]byte
	for k := 0; k < F; k++ {
		snaps = append(snaps, z.image(k))
	}
	before := z.presence()
	err := s.UpdateLUNMap()
	inject.ZZUpdateLUNMapHook = nil
	zzAssert(err == nil, "C07.merge.UpdateLUNMap-error")
	zzSettle()
	img := z.image(F)
	total := B * U
	rb := z.buf(total)
	n, rerr := d.ReadAt(rb, 0)
	zzAssert(rerr == nil && n == len(rb), "C07.merge.read-error")
	for x := 0; x < total; x++ {
		zzAssert(z.unit(rb, x) == img[x], "C07.merge.rebuilt-replica-reads-wrong-data")
	}
	for k := 1; k < F; k++ {
		after := z.image(k)
		same := true
		for x := 0; x < total; x++ {
			same = zzAnd(same, after[x] == snaps[k][x])
		}
		zzAssert(zzImplies(k <= d.SnapIndx, same), "C07.merge.copied-snapshot-changed")
	}
	z.checkProtected("C07.merge", before)
	z.checkInvD("C07.merge")
	zzReach("C07.merge.done")
	zzCleanupFiles()
}
