package replica

// C06 (space reclamation through Unmap): diffDisk.Unmap punches the given byte range
// in every chain file above the newest user-created snapshot.  From an arbitrary
// valid chain state and for every (offset, length): every snapshot at or below the
// newest user-created snapshot keeps its image and its blocks.  (Nothing is asserted
// about what the live volume reads inside an unmapped range.)
func ZZ_C06_UnmapStep() {
	B, U, Fmax := zzBounds()
	F := zzConcretize(zzChoice("F", Fmax)) + 1
	z := zzMkDiffDisk(B, U, F, true)
	d := z.d
	zzStartHoleWorker()
	img := z.image(F)
	var snaps [][]byte
	for s := 0; s < F; s++ {
		snaps = append(snaps, z.image(s))
	}
	total := B * U
	off := zzConcretize(zzChoice("off", total))
	n := zzConcretize(zzChoice("len", total-off)) + 1
	before := z.presence()
	userBefore := make([]bool, F+1)
	for s := 1; s <= F; s++ {
		userBefore[s] = d.UserCreatedSnap[s]
	}
	snapIndxBefore := d.SnapIndx
	_, err := d.Unmap(int64(off)*zzScale(U), int64(n)*zzScale(U))
	zzSettle()
	zzAssert(err == nil, "C06.unmap-result")
	for s := 1; s < F; s++ {
		after := z.image(s)
		same := true
		for x := 0; x < total; x++ {
			same = zzAnd(same, after[x] == snaps[s][x])
		}
		zzAssert(zzImplies(s <= snapIndxBefore, same), "C06.snapshot-changed-by-unmap")
		zzAssert(d.UserCreatedSnap[s] == userBefore[s], "C06.unmap-changed-user-created-flag")
	}
	zzAssert(d.SnapIndx == snapIndxBefore, "C06.unmap-changed-SnapIndx")
	z.checkProtected("C06.unmap", before)
	// outside the unmapped range the live image is what it was
	img2 := z.image(F)
	for x := 0; x < total; x++ {
		if x < off || x >= off+n {
			zzAssert(img2[x] == img[x], "C06.unmap-changed-bytes-outside-the-range")
		}
	}
	zzReach("C06.unmap.done")
	zzCleanupFiles()
}
